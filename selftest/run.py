#!/usr/bin/env python3
"""selftest: applies each patch under selftest/neutral (behaviour preserving: every check must stay
silent) and selftest/mutants + seeded/*/patch.diff (each must be reported by the checks listed in
its expectation) to a scratch worktree of /repo's HEAD and runs the static checks against it.
Only compiles (cargo check through the axfacts driver); never runs the engine.
usage: selftest/run.py [neutral|mutants|seeded|all] [name-filter]"""
import json, os, subprocess, sys, glob, re
V = os.path.dirname(os.path.dirname(os.path.abspath(__file__)))
WT = os.environ.get("SELFTEST_WT", "/tmp/axv_selftest")
PROPS = [c["property_id"] for c in json.load(open(os.path.join(V, "MANIFEST.json")))["checks"]]

def sh(cmd, cwd=None, env=None):
    e = dict(os.environ); e.update(env or {})
    r = subprocess.run(cmd, shell=True, cwd=cwd, stdout=subprocess.PIPE, stderr=subprocess.STDOUT, text=True, env=e)
    return r.returncode, r.stdout

def checks(props):
    out = {}
    env = {"AXV_REPO": WT, "AXV_TARGET_DIR": "/tmp/axv_selftest_target", "AXV_EVIDENCE_DIR": "/tmp/axv_selftest_evidence"}
    for p in props:
        rc, o = sh("./axv check %s" % p, V, env)
        if rc == 2:
            out[p] = ["DOES-NOT-BUILD"]
        elif rc != 0:
            out[p] = [l.strip().split(" at ")[0].replace("violation ", "") for l in o.splitlines() if l.strip().startswith("violation")]
    return out

def main():
    what = sys.argv[1] if len(sys.argv) > 1 else "all"
    flt = sys.argv[2] if len(sys.argv) > 2 else ""
    if not os.path.isdir(WT):
        sh("git -C /repo worktree add -q --detach %s HEAD" % WT)
    sh("git checkout -q --detach $(git -C /repo rev-parse HEAD) && git checkout -- . && git clean -fdq crates", WT)
    fails = 0
    items = []
    if what in ("neutral", "all"):
        items += [("neutral", f, None) for f in sorted(glob.glob(os.path.join(V, "selftest/neutral/*.diff")))]
    if what in ("mutants", "all"):
        for f in sorted(glob.glob(os.path.join(V, "selftest/mutants/*.diff"))):
            exp = json.load(open(f[:-5] + ".json"))
            items.append(("mutant", f, exp))
    if what in ("seeded", "all"):
        for d in sorted(glob.glob(os.path.join(V, "seeded/*/"))):
            meta = json.load(open(os.path.join(d, "meta.json")))
            items.append(("seeded", os.path.join(d, "patch.diff"), meta.get("expected_detection")))
    for kind, f, exp in items:
        name = os.path.basename(os.path.dirname(f)) if kind == "seeded" else os.path.basename(f)[:-5]
        if flt and flt not in name:
            continue
        sh("git checkout -- . && git clean -fdq crates", WT)
        rc, o = sh("git apply %s" % f, WT)
        if rc != 0:
            print("%-8s %-50s PATCH DOES NOT APPLY" % (kind, name)); fails += 1; continue
        props = PROPS if kind == "neutral" or not exp else sorted(set(exp.get("checks", PROPS)))
        got = checks(props)
        if kind == "neutral":
            ok = not got
            print("%-8s %-50s %s" % (kind, name, "silent" if ok else "FALSE ALARM %s" % got))
        else:
            if not exp or not exp.get("keys"):
                ok = True
                print("%-8s %-50s reported by %s (no expectation recorded)" % (kind, name, sorted(got) or "nothing"))
            elif exp.get("undetected"):
                ok = True
                print("%-8s %-50s recorded as not detectable; reported by %s" % (kind, name, sorted(got) or "nothing"))
            else:
                allk = [k for v in got.values() for k in v]
                ok = all(any(want in k for k in allk) for want in exp["keys"])
                print("%-8s %-50s %s" % (kind, name, "caught: %s" % exp["keys"] if ok else "MISSED expected %s, got %s" % (exp["keys"], got)))
        fails += 0 if ok else 1
    sh("git checkout -- . && git clean -fdq crates", WT)
    print("selftest: %d item(s), %d failure(s)" % (len(items), fails))
    return 1 if fails else 0

sys.exit(main())
