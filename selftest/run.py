#!/usr/bin/env python3
"""selftest: applies each patch under selftest/neutral (behaviour preserving: every check must stay
silent) and selftest/mutants + seeded/*/patch.diff (each must be reported by the checks listed in
its expectation) to a scratch worktree of /repo's HEAD and runs the static checks against it.
Only compiles (cargo check through the axfacts driver); never runs the engine.
usage: selftest/run.py [neutral|mutants|seeded|all] [name-filter]"""
import json, os, subprocess, sys, glob, re
V = os.path.dirname(os.path.dirname(os.path.abspath(__file__)))
WT = os.environ.get("SELFTEST_WT", "/tmp/axv_selftest_%d" % os.getpid())
PROPS = [c["property_id"] for c in json.load(open(os.path.join(V, "MANIFEST.json")))["checks"]]

def sh(cmd, cwd=None, env=None):
    e = dict(os.environ); e.update(env or {})
    r = subprocess.run(cmd, shell=True, cwd=cwd, stdout=subprocess.PIPE, stderr=subprocess.STDOUT, text=True, env=e)
    return r.returncode, r.stdout

def cleanup():
    """remove the scratch worktree again (nothing is kept under /tmp between runs)"""
    sh("git -C /repo worktree remove --force %s" % WT)
    sh("rm -rf %s" % WT)
    sh("git -C /repo worktree prune")


def checks(props):
    out = {}
    # the scratch worktree shares the dependency build of the normal extraction (extraction is serialised
    # by the facts lock and always deletes the workspace members' fingerprints)
    env = {"AXV_REPO": WT, "AXV_EVIDENCE_DIR": os.path.join(V, ".cache", "selftest_evidence")}
    for p in props:
        rc, o = sh("./axv check %s" % p, V, env)
        if rc == 2:
            out[p] = ["DOES-NOT-BUILD"]
        elif rc != 0:
            out[p] = [l.strip().split(" at ")[0].replace("violation ", "") for l in o.splitlines() if l.strip().startswith("violation")]
    return out

def for_property(prop):
    """positive controls of one property: every recorded mutant whose expectation names a rule of this
    property is applied to the scratch worktree and must be reported by this property's check.
    Prints one JSON object: {"run": n, "caught": n, "missed": [...], "items": [...]}"""
    if not os.path.isdir(WT):
        sh("git -C /repo worktree add -q --detach %s HEAD" % WT)
    sh("git checkout -q --detach $(git -C /repo rev-parse HEAD) && git checkout -- . && git clean -fdq crates", WT)
    items = []
    for f in sorted(glob.glob(os.path.join(V, "selftest/mutants/*.diff"))):
        exp = json.load(open(f[:-5] + ".json"))
        items.append((os.path.basename(f)[:-5], f, exp))
    for d in sorted(glob.glob(os.path.join(V, "seeded/*/"))):
        meta = json.load(open(os.path.join(d, "meta.json")))
        exp = meta.get("expected_detection") or {}
        if exp.get("keys") and not exp.get("undetected"):
            items.append((os.path.basename(d.rstrip("/")), os.path.join(d, "patch.diff"), exp))
    res = {"run": 0, "caught": 0, "missed": [], "items": []}
    for name, f, exp in items:
        mine = [k for k in exp.get("keys", []) if k.startswith(prop + ".")]
        if not mine:
            continue
        sh("git checkout -- . && git clean -fdq crates", WT)
        rc, o = sh("git apply %s || (git apply --3way %s && git reset -q)" % (f, f), WT)
        if rc != 0:
            res["missed"].append(name + " (patch does not apply)")
            continue
        got = checks([prop]).get(prop, [])
        # caught = some rule the expectation names reports a violation (which obligations of that rule fail depends on
        # how much of the change the inlined evaluation sees through)
        ok = any(w.split(":")[0] == k.split(":")[0] for w in mine for k in got)
        res["run"] += 1
        res["caught"] += 1 if ok else 0
        res["items"].append({"mutant": name, "expected": mine, "reported": got[:6], "caught": ok})
        if not ok:
            res["missed"].append(name)
    cleanup()
    print(json.dumps(res))
    return 0


def main():
    if len(sys.argv) > 2 and sys.argv[1] == "prop":
        return for_property(sys.argv[2])
    what = sys.argv[1] if len(sys.argv) > 1 else "all"
    flt = sys.argv[2] if len(sys.argv) > 2 else ""
    if not os.path.isdir(WT):
        sh("git -C /repo worktree add -q --detach %s HEAD" % WT)
    sh("git checkout -q --detach $(git -C /repo rev-parse HEAD) && git checkout -- . && git clean -fdq crates", WT)
    fails = 0
    items = []
    if what in ("neutral", "all"):
        items += [("neutral", f, None) for f in sorted(glob.glob(os.path.join(V, "selftest/neutral/*.diff")))]
        # behaviour-preserving refactorings written by independent sub-agents (selftest/neutral_agents/NA_<prop>_<n>.diff)
        items += [("neutral", f, None) for f in sorted(glob.glob(os.path.join(V, "selftest/neutral_agents/*.diff")))]
    if what in ("mutants", "all"):
        for f in sorted(glob.glob(os.path.join(V, "selftest/mutants/*.diff"))):
            exp = json.load(open(f[:-5] + ".json"))
            items.append(("mutant", f, exp))
    if what in ("seeded", "all"):
        for d in sorted(glob.glob(os.path.join(V, "seeded/*/"))):
            meta = json.load(open(os.path.join(d, "meta.json")))
            items.append(("seeded", os.path.join(d, "patch.diff"), meta.get("expected_detection")))
    for kind, f, exp in items:
        name = os.path.basename(os.path.dirname(f)) if kind == "seeded" else os.path.basename(f)[:-5]
        if flt and flt not in name:
            continue
        sh("git checkout -- . && git clean -fdq crates", WT)
        rc, o = sh("git apply %s || (git apply --3way %s && git reset -q)" % (f, f), WT)
        if rc != 0:
            print("%-8s %-50s PATCH DOES NOT APPLY" % (kind, name)); fails += 1; continue
        props = PROPS if kind == "neutral" or not exp else sorted(set(exp.get("checks", PROPS)))
        got = checks(props)
        if kind == "neutral":
            ok = not got
            print("%-8s %-50s %s" % (kind, name, "silent" if ok else "FALSE ALARM %s" % got))
        else:
            if not exp or not exp.get("keys"):
                ok = True
                print("%-8s %-50s reported by %s (no expectation recorded)" % (kind, name, sorted(got) or "nothing"))
            elif exp.get("undetected"):
                ok = True
                print("%-8s %-50s recorded as not detectable; reported by %s" % (kind, name, sorted(got) or "nothing"))
            else:
                allk = [k for v in got.values() for k in v]
                ok = any(want.split(":")[0] == k.split(":")[0] for want in exp["keys"] for k in allk)
                print("%-8s %-50s %s" % (kind, name, "caught: %s" % exp["keys"] if ok else "MISSED expected %s, got %s" % (exp["keys"], got)))
        fails += 0 if ok else 1
    cleanup()
    print("selftest: %d item(s), %d failure(s)" % (len(items), fails))
    return 1 if fails else 0

sys.exit(main())
