# property id -> claim text / technique (read by gen_manifest.py)
NA["C10"] = "B+tree key order, separator routing, equal leaf depth and sibling links are relations among runtime byte strings and page occupancies; no structural necessary condition short of the behaviour exists (DESIGN.md section 5, C10)"
CLAIMS["C01"] = {
 "text": "Decides, for every path of every commit site in the current tree, the structural necessary conditions of durability: commit is followed by a log force/checkpoint before the acknowledgement; the force writes queued blocks, current block, block zero and fsyncs; block placement and the block counter depend on what is already on disk; the log is truncated only after a checkpoint; DML logs before mutating a tree; only the pager appends/forces. Does not decide that redo reproduces the data.",
 "technique": "must-pass-through and dominance over rustc MIR CFGs with interprocedural must-reach summaries; def-use dependence; who-may-call tables"}
