#!/usr/bin/env python3
"""inline_diag.py [Cxx ...]: evaluates the rules on the inlined views only (diagnostic: what the second evaluation of
engine.run_check would say on this tree). On the unchanged tree it should report nothing but the known findings."""
import sys, os, importlib, json
sys.path.insert(0, os.path.dirname(os.path.dirname(os.path.abspath(__file__))))
from axvlib import core, engine
props = sys.argv[1:] or [c["property_id"] for c in json.load(open("/verif/MANIFEST.json"))["checks"]]
d, _ = core.facts_dir("")
p = core.Program(d)
p.inline_mode = True
known = {k["key"] for k in engine.load_known() if k.get("status") == "known"}
for prop in props:
    mod = importlib.import_module("rules.%s" % prop.lower())
    # the plain evaluation first, as engine.run_check does: the functions it looks up are this run's atoms
    p.inline_mode = False
    p.requested.clear()
    p.fns.cache.clear()
    try:
        c0 = engine.Cx(prop, "quick", p, {"default": p})
        mod.check(c0)
    except Exception:
        pass
    p.inline_mode = True
    cx = engine.Cx(prop, "quick", p, {"default": p})
    try:
        mod.check(cx)
    except Exception as e:
        print(prop, "CRASH", repr(e)[:300]); continue
    cx.finish_floors()
    bad = [o for o in cx.obl if o["status"] == "violation" and o["key"] not in known]
    # the engine tolerates, on the inlined evaluation, a floor shortfall of up to a half when nothing else of the rule fails
    for o in list(bad):
        if o["key"].endswith(":floor"):
            r = cx.rules.get(o["rule"]) or {}
            others = [x for x in bad if x["rule"] == o["rule"] and x is not o]
            if not others and r.get("floor") and r.get("instances", 0) >= max(1, -(-r["floor"] // 2)):
                bad.remove(o)
    print(prop, "inline-only violations:", len(bad))
    for o in bad:
        print("   ", o["key"], "|", o["detail"][:160])
