#!/bin/bash
# extract.sh <repo> <outdir> [features]
# Runs the axfacts driver over <repo>'s workspace (lib + bins, the build's own flags)
# and leaves one JSONL facts file per crate in <outdir>. Dependencies are compiled
# into a persistent target dir under /verif/.cache; the workspace members'
# fingerprints are deleted first so cargo can never skip the driver.
set -euo pipefail
REPO=${1:?repo}; OUT=${2:?outdir}; FEAT=${3:-}
VERIF=$(cd "$(dirname "$0")/.." && pwd)
DRV=$VERIF/axfacts/target/release/axfacts
if [ ! -x "$DRV" ] || [ "$VERIF/axfacts/src/main.rs" -nt "$DRV" ]; then
  (cd "$VERIF/axfacts" && CARGO_NET_OFFLINE=true cargo +nightly build --release --offline >&2)
fi
TGT=${AXV_TARGET_DIR:-$VERIF/.cache/target${FEAT:+-$FEAT}}
mkdir -p "$TGT" "$OUT"
rm -f "$OUT"/*.jsonl
# never let cargo's freshness cache skip a workspace member
rm -rf "$TGT"/debug/.fingerprint/axmos* "$TGT"/debug/incremental 2>/dev/null || true
SYSROOT=$(rustc +nightly --print sysroot)
cd "$REPO"
FEATARGS=()
if [ -n "$FEAT" ]; then FEATARGS=(-p axmosdb --features "$FEAT"); else FEATARGS=(--workspace); fi
env CARGO_NET_OFFLINE=true LD_LIBRARY_PATH="$SYSROOT/lib" \
  RUSTFLAGS="-Zmir-opt-level=0 -Awarnings" \
  RUSTC_WORKSPACE_WRAPPER="$DRV" AXFACTS_OUT="$OUT" AXFACTS_CRATES="axmosdb,axmos_server,axmos_client" \
  CARGO_TARGET_DIR="$TGT" CARGO_INCREMENTAL=0 \
  cargo +nightly check --offline "${FEATARGS[@]}" --lib --bins >"$OUT/cargo.log" 2>&1 || {
    echo "extract: cargo check failed (see $OUT/cargo.log)" >&2; tail -30 "$OUT/cargo.log" >&2; exit 3; }
test -s "$OUT"/axmosdb.jsonl || { echo "extract: no facts for axmosdb" >&2; exit 3; }
test -s "$OUT"/axmos_server.jsonl || { echo "extract: no facts for axmos_server" >&2; exit 3; }
