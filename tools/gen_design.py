#!/usr/bin/env python3
"""Regenerates the generated blocks of DESIGN.md (between <!-- BEGIN x --> / <!-- END x --> markers):
  rules    - rule inventory from the evidence files of the committed tree
  seeded   - table of seeded mutants from seeded/*/meta.json
  selftest - lists of hand-written mutants and neutral edits"""
import json, os, glob, re
V = os.path.dirname(os.path.dirname(os.path.abspath(__file__)))

def rules_block():
    out = []
    for f in sorted(glob.glob(os.path.join(V, "evidence", "C*.json"))):
        e = json.load(open(f))
        c = e["coverage"]
        out.append("**%s** — %d obligations, %d discharged, %d known finding(s) printed; %.1f s (%s tier)\n" % (
            e["property_id"], c["obligations"], c["discharged"], len(set(c["known_findings_printed"])), e["wall_s"], e["tier"]))
        out.append("| rule | instances (floor) | ok / viol. / adv. | decides |")
        out.append("|---|---|---|---|")
        for r in c["rules"]:
            out.append("| %s | %d (%s) | %d / %d / %d | %s |" % (r["id"], r["instances"], r["floor"] if r["floor"] is not None else "–",
                                                                 r["ok"], r["violations"], r["advisory"], r["text"].replace("|", "\\|")))
        out.append("")
    return "\n".join(out)

def seeded_block():
    rows = ["| id | property | what was changed | needs | caught by (rule keys) | when first evaluated |", "|---|---|---|---|---|---|"]
    for d in sorted(glob.glob(os.path.join(V, "seeded", "*/"))):
        m = json.load(open(os.path.join(d, "meta.json")))
        exp = m.get("expected_detection") or {}
        caught = ", ".join(exp.get("keys", [])) if not exp.get("undetected") else "**not detected** — " + exp.get("why", "")
        fe = m.get("first_evaluation") or {}
        first = fe.get("result", "(not recorded separately)")
        if fe.get("rules_added_or_strengthened_afterwards"):
            first += "; afterwards: " + fe["rules_added_or_strengthened_afterwards"]
        rows.append("| %s | %s | %s | %s | %s | %s |" % (os.path.basename(d.rstrip("/")), m.get("property"), (m.get("summary") or "")[:260].replace("|", "\\|").replace("\n", " "),
                                                    (m.get("needs") or "")[:200].replace("|", "\\|").replace("\n", " "), caught.replace("|", "\\|"), first.replace("|", "\\|")))
    return "\n".join(rows)

def selftest_block():
    rows = ["| mutant | property | expected rule keys | what |", "|---|---|---|---|"]
    for f in sorted(glob.glob(os.path.join(V, "selftest/mutants/*.json"))):
        m = json.load(open(f))
        rows.append("| %s | %s | %s | %s |" % (os.path.basename(f)[:-5], m["property"], ", ".join(m["keys"]), m["what"]))
    rows.append("")
    rows.append("Neutral (behaviour-preserving) edits that must stay silent: " + ", ".join(
        "`%s`" % os.path.basename(f)[:-5] for f in sorted(glob.glob(os.path.join(V, "selftest/neutral/*.diff")))))
    rows.append("")
    rows.append("Behaviour-preserving refactorings written by independent sub-agents (`selftest/neutral_agents/`, all must stay silent):")
    rows.append("")
    rows.append("| refactoring | code of property | what was restructured |")
    rows.append("|---|---|---|")
    for f in sorted(glob.glob(os.path.join(V, "selftest/neutral_agents/*.json"))):
        m = json.load(open(f))
        rows.append("| %s | %s | %s |" % (os.path.basename(f)[:-5], m.get("given_property"), (m.get("summary") or "")[:330].replace("|", "\\|").replace("\n", " ")))
    rows.append("")
    rows.append("Open false alarms (`selftest/neutral_agents_open/`, behaviour-preserving refactorings of the third neutral round on which a rule still fires; not part of the self-test):")
    rows.append("")
    rows.append("| refactoring | code of property | rules that fire | what was restructured |")
    rows.append("|---|---|---|---|")
    for f in sorted(glob.glob(os.path.join(V, "selftest/neutral_agents_open/*.json"))):
        m = json.load(open(f))
        fa = m.get("false_alarms")
        keys = sorted({k.split(":")[0] for v in fa.values() for k in v}) if isinstance(fa, dict) else [str(fa)[:80]]
        rows.append("| %s | %s | %s | %s |" % (os.path.basename(f)[:-5], m.get("given_property"), ", ".join(keys), (m.get("summary") or "")[:300].replace("|", "\\|").replace("\n", " ")))
    return "\n".join(rows)

def main():
    p = os.path.join(V, "DESIGN.md")
    s = open(p).read()
    for name, fn in (("rules", rules_block), ("seeded", seeded_block), ("selftest", selftest_block)):
        a, b = "<!-- BEGIN %s -->" % name, "<!-- END %s -->" % name
        if a in s and b in s:
            s = s[:s.index(a) + len(a)] + "\n" + fn() + "\n" + s[s.index(b):]
    open(p, "w").write(s)

main()
