#!/usr/bin/env python3
"""Applies each seeded mutant to a scratch worktree of /repo's HEAD, runs all static checks against it
and records, in seeded/<id>/meta.json, which rule keys report it (expected_detection)."""
import json, os, subprocess, sys, glob
V = "/verif"
WT = os.environ.get("RECORD_WT", "/tmp/axv_seeded_wt")
TGT = os.environ.get("RECORD_TARGET", "")
PROPS = [c["property_id"] for c in json.load(open(V + "/MANIFEST.json"))["checks"]]
def sh(cmd, cwd=None, env=None):
    e = dict(os.environ); e.update(env or {})
    r = subprocess.run(cmd, shell=True, cwd=cwd, stdout=subprocess.PIPE, stderr=subprocess.STDOUT, text=True, env=e)
    return r.returncode, r.stdout
if not os.path.isdir(WT):
    sh("git -C /repo worktree add -q --detach %s HEAD" % WT)
sh("git checkout -q --detach $(git -C /repo rev-parse HEAD) && git checkout -- . && git clean -fdq crates", WT)
only = sys.argv[1:] 
for d in sorted(glob.glob(V + "/seeded/*/")):
    mid = os.path.basename(d.rstrip("/"))
    if only and mid not in only:
        continue
    meta = json.load(open(d + "meta.json"))
    sh("git checkout -- . && git clean -fdq crates", WT)
    rc, o = sh("git apply %spatch.diff" % d, WT)
    if rc != 0:
        rc, o = sh("git apply --3way %spatch.diff && git reset -q" % d, WT)
    if rc != 0:
        print(mid, "DOES NOT APPLY to HEAD:", o[-200:]); continue
    got = {}
    for p in PROPS:
        env = {"AXV_REPO": WT, "AXV_EVIDENCE_DIR": V + "/.cache/seeded_evidence" + WT.replace("/", "_")}
        if TGT:
            env["AXV_TARGET_DIR"] = TGT
        rc, o = sh("./axv check %s" % p, V, env)
        if rc == 2:
            got[p] = ["DOES-NOT-BUILD"]
        elif rc != 0:
            got[p] = [l.strip().split(" at ")[0].replace("violation ", "") for l in o.splitlines() if l.strip().startswith("violation")]
    own = meta["property"]
    prev = meta.get("expected_detection") or {}
    if got:
        keys = got.get(own) or [k for v in got.values() for k in v]
        meta["expected_detection"] = {"checks": sorted(got), "keys": sorted(set(keys))[:6], "by_own_property": own in got,
                                      "all_reports": got}
    else:
        meta["expected_detection"] = {"undetected": True, "why": prev.get("why", "")}
    json.dump(meta, open(d + "meta.json", "w"), indent=1)
    print(mid, "own" if own in got else ("other" if got else "UNDETECTED"), sorted(got), flush=True)
sh("git -C /repo worktree remove --force %s" % WT)
