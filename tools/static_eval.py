#!/usr/bin/env python3
"""static_eval.py <mutant dir>... : applies <dir>/patch.diff to a scratch worktree of /repo's HEAD and prints which
rule keys of which checks report it (no suite, no demo; see eval_mutants.py for those)."""
import json, os, subprocess, sys
V = "/verif"
WT = os.environ.get("STATIC_WT", "/tmp/axv_static_wt")
PROPS = [c["property_id"] for c in json.load(open(V + "/MANIFEST.json"))["checks"]]
def sh(cmd, cwd=None, env=None):
    e = dict(os.environ); e.update(env or {})
    r = subprocess.run(cmd, shell=True, cwd=cwd, stdout=subprocess.PIPE, stderr=subprocess.STDOUT, text=True, env=e)
    return r.returncode, r.stdout
if not os.path.isdir(WT):
    sh("git -C /repo worktree add -q --detach %s HEAD" % WT)
sh("git checkout -q --detach $(git -C /repo rev-parse HEAD) && git checkout -- . && git clean -fdq crates", WT)
for d in sys.argv[1:]:
    d = d.rstrip("/")
    sh("git checkout -- . && git clean -fdq crates", WT)
    rc, o = sh("git apply %s/patch.diff" % d, WT)
    if rc != 0:
        rc, o = sh("git apply --3way %s/patch.diff && git reset -q" % d, WT)
    if rc != 0:
        print(d, "DOES NOT APPLY:", o[-300:]); continue
    own = json.load(open(d + "/meta.json")).get("property")
    got = {}
    for p in PROPS:
        rc, o = sh("./axv check %s" % p, V, {"AXV_REPO": WT, "AXV_EVIDENCE_DIR": V + "/.cache/static_eval_evidence", "AXV_TARGET_DIR": "/tmp/static_eval_target"})
        if rc == 2:
            got[p] = ["DOES-NOT-BUILD"]
        elif rc != 0:
            got[p] = [l.strip().split(" at ")[0].replace("violation ", "") for l in o.splitlines() if l.strip().startswith("violation")]
    print(d, "OWN" if own in got else ("other" if got else "UNDETECTED"), json.dumps(got)[:600], flush=True)
sh("git checkout -- . && git clean -fdq crates", WT)
