#!/usr/bin/env python3
"""Confirms each seeded mutant (compiles, suite passes, demo fails with / passes without the patch)
in a scratch worktree and runs every static check against it. Results -> <outdir>/<id>.json
usage: eval_mutants.py <mutant dir>... (each holds patch.diff, demo.diff, meta.json)"""
import json, os, re, subprocess, sys, time
WT = os.environ.get("EVAL_WT", "/tmp/eval")
OUT = os.environ.get("EVAL_OUT", "/tmp/eval_results")
VERIF = "/verif"
PROPS = ["C%02d" % i for i in range(1, 21) if i != 10]

def sh(cmd, cwd=None, timeout=1800, env=None):
    e = dict(os.environ); e.update(env or {}); e["CARGO_NET_OFFLINE"] = "true"
    try:
        r = subprocess.run(cmd, shell=True, cwd=cwd, stdout=subprocess.PIPE, stderr=subprocess.STDOUT, text=True, timeout=timeout, env=e)
        return r.returncode, r.stdout
    except subprocess.TimeoutExpired as ex:
        return 124, (ex.stdout or "") + "\nTIMEOUT"

def reset():
    sh("git checkout -- . && git clean -fdq crates", WT)

def demo_cmd(meta):
    c = meta.get("demo_cmd", "")
    m = re.findall(r"(cargo test[^&;]*)", c)
    return m[-1].strip() if m else None

def main():
    os.makedirs(OUT, exist_ok=True)
    if not os.path.isdir(WT):
        sh("git -C /repo worktree add -q --detach %s HEAD" % WT)
    for d in sys.argv[1:]:
        d = d.rstrip("/")
        mid = "%s-%s" % (os.path.basename(os.path.dirname(os.path.dirname(d))), os.path.basename(d))  # C01-m1
        res = {"id": mid, "dir": d}
        t0 = time.time()
        try:
            meta = json.load(open(os.path.join(d, "meta.json")))
        except Exception as e:
            res["error"] = "meta: %s" % e; json.dump(res, open(os.path.join(OUT, mid + ".json"), "w"), indent=1); continue
        res["property"] = meta.get("property")
        reset()
        sh("git checkout -q --detach $(git -C /repo rev-parse HEAD)", WT)
        rc, out = sh("git apply %s/patch.diff" % d, WT)
        if rc != 0:
            rc, out = sh("git apply --3way %s/patch.diff" % d, WT)
        res["apply_ok"] = rc == 0
        if rc != 0:
            res["apply_err"] = out[-800:]
            json.dump(res, open(os.path.join(OUT, mid + ".json"), "w"), indent=1); reset(); continue
        sh("git reset -q", WT)
        rc, out = sh("cargo test --workspace --no-run --offline 2>&1 | tail -5", WT)
        res["compile_ok"] = "error" not in out.lower() or "Finished" in out
        rc, out = sh("cargo test --workspace --no-fail-fast --offline 2>&1 | grep -E '^test result|FAILED|failed' | head -20", WT)
        res["suite"] = out.strip()[-600:]
        m = re.search(r"(\d+) passed; (\d+) failed", out.replace("\n", " ").split("645")[0] + out) if out else None
        tot = re.findall(r"test result: \w+\. (\d+) passed; (\d+) failed", out)
        res["suite_passed"] = sum(int(a) for a, b in tot); res["suite_failed"] = sum(int(b) for a, b in tot)
        # static checks against the mutated tree
        det = {}
        for pr in PROPS:
            rc, o = sh("./axv check %s" % pr, VERIF, env={"AXV_REPO": WT, "AXV_TARGET_DIR": os.environ.get("EVAL_TARGET", "/tmp/eval_axv_target"), "AXV_EVIDENCE_DIR": "/tmp/eval_evidence"})
            if rc != 0:
                det[pr] = [l.strip()[:400] for l in o.splitlines() if l.strip().startswith("violation")][:6] or [o[-300:]]
        res["static_violations"] = det
        res["detected_by_own_property"] = res["property"] in det
        res["detected_by_any"] = bool(det)
        # the demonstration
        dc = demo_cmd(meta)
        res["demo_cmd"] = dc
        demo = os.path.join(d, "demo.diff")
        if dc and os.path.exists(demo):
            rc, out = sh("git apply %s" % demo, WT)
            res["demo_apply_ok"] = rc == 0
            rc1, o1 = sh(dc + " 2>&1 | tail -30", WT, timeout=900)
            res["demo_with_patch"] = o1[-700:]
            res["demo_fails_with_patch"] = ("FAILED" in o1 or "panicked" in o1 or "failed" in o1 or "SIGABRT" in o1 or "TIMEOUT" in o1)
            sh("git apply -R %s/patch.diff" % d, WT)
            rc2, o2 = sh(dc + " 2>&1 | tail -30", WT, timeout=900)
            res["demo_without_patch"] = o2[-500:]
            res["demo_passes_without_patch"] = ("test result: ok" in o2 and "FAILED" not in o2)
        res["wall_s"] = round(time.time() - t0, 1)
        json.dump(res, open(os.path.join(OUT, mid + ".json"), "w"), indent=1)
        print(mid, "apply", res.get("apply_ok"), "suite", res.get("suite_passed"), res.get("suite_failed"), "demo fail/pass", res.get("demo_fails_with_patch"), res.get("demo_passes_without_patch"),
              "detected:", sorted(det), flush=True)
        reset()

main()
