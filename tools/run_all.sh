#!/bin/bash
# runs every registered quick (or $1=thorough) check and prints one line each
cd "$(dirname "$0")/.."
T=${1:-quick}; rc=0
for c in $(python3 -c "import json;print(' '.join(x['property_id'] for x in json.load(open('MANIFEST.json'))['checks']))"); do
  ./axv check $c --tier $T | tail -1 || rc=1
done
exit $rc
