#!/usr/bin/env python3
"""Regenerates /verif/MANIFEST.json from the table below (one place to edit)."""
import json, os
V = os.path.dirname(os.path.dirname(os.path.abspath(__file__)))
props = [json.loads(l) for l in open(os.path.join(V, "properties.jsonl"))]
sys_path = os.path.join(V)
import sys; sys.path.insert(0, V); sys.dont_write_bytecode = True
CLAIMS = {}
NA = {}
exec(open(os.path.join(V, "tools", "claims.py")).read())
checks = []
for p in props:
    pid = p["id"]
    if pid not in CLAIMS:
        continue
    c = CLAIMS[pid]
    checks.append({
        "property_id": pid,
        "quick_cmd": "./axv check %s --tier quick" % pid,
        "thorough_cmd": "./axv check %s --tier thorough" % pid,
        "evidence_file": "/verif/evidence/%s.json" % pid,
        "replay_cmd_template": "cat {path}",
        "engine": "axv",
        "level_claimed": {"category": "other", "text": c["text"], "design_ref": "DESIGN.md section 5, " + pid},
        "level_note": c.get("note", "Trusted: rustc type checker/MIR/dominators, Instance::try_resolve, CHA closure over the crate's impls, the err-edge classification (DESIGN 3.3), the reference tables in /verif/rules. Decides necessary structural conditions only."),
        "technique": c["technique"],
    })
na = [{"property_id": p["id"], "reason": NA.get(p["id"], "check under construction (DESIGN.md section 5)")} for p in props if p["id"] not in CLAIMS]
m = {
    "version": 1,
    "setup_cmd": "cd /verif/axfacts && CARGO_NET_OFFLINE=true cargo +nightly build --release --offline && cd /verif && ./axv facts",
    "hooks": {"guard": "none — static analysis reads the unmodified tree; no hooks or instrumentation exist in /repo",
              "enable": "n/a (checks run `cargo +nightly check` on /repo through the axfacts rustc wrapper)",
              "baseline_off_cmd": "cd /repo && cargo test --workspace --no-fail-fast --offline",
              "source_commits": [], "add_only": True},
    "engines": [
        {"name": "axfacts", "path": "/verif/axfacts", "serves_properties": sorted(CLAIMS), "kind_free_text": "rustc_private driver (nightly) dumping type-checked MIR, resolved callees, dominators, ADTs, impls, consts of /repo's current tree as JSONL"},
        {"name": "axv", "path": "/verif/axv", "serves_properties": sorted(CLAIMS), "kind_free_text": "Python rule engine: must-pass-through, dominance, who-may-call, table agreement, def-use/taint with field-sensitive provenance, lock-class order, panic surface, decision-table extraction, path search with constant facts (enum variants, flags, aggregates) over the facts; every rule is evaluated on the plain MIR and on views with same-file helpers inlined, a report needs both"},
    ],
    "checks": checks,
    "not_applicable": na,
    "notes": "Static analysis only (DESIGN.md). Every claimed check decides named structural clauses that are necessary conditions of the property; the evidence file lists decided and undecided clauses. Known findings: /verif/known_findings.jsonl.",
}
json.dump(m, open(os.path.join(V, "MANIFEST.json"), "w"), indent=1)
print("claimed:", sorted(CLAIMS), "n/a:", [x["property_id"] for x in na])
