#!/usr/bin/env python3
"""neutral_eval.py <dir>... : each <dir>/patch.diff is a behaviour-preserving edit; applies it to a scratch worktree of /repo's
HEAD, runs every check against it and prints the rule keys that report it (each one is a false alarm of the rule)."""
import json, os, subprocess, sys
V = "/verif"
WT = os.environ.get("NEUTRAL_WT", "/tmp/axv_neutral_wt")
TGT = os.environ.get("NEUTRAL_TARGET", "")
PROPS = [c["property_id"] for c in json.load(open(V + "/MANIFEST.json"))["checks"]]
def sh(cmd, cwd=None, env=None):
    e = dict(os.environ); e.update(env or {})
    r = subprocess.run(cmd, shell=True, cwd=cwd, stdout=subprocess.PIPE, stderr=subprocess.STDOUT, text=True, env=e)
    return r.returncode, r.stdout
if not os.path.isdir(WT):
    sh("git -C /repo worktree add -q --detach %s HEAD" % WT)
sh("git checkout -q --detach $(git -C /repo rev-parse HEAD) && git checkout -- . && git clean -fdq crates", WT)
for d in sys.argv[1:]:
    d = d.rstrip("/")
    sh("git checkout -- . && git clean -fdq crates", WT)
    rc, o = sh("git apply %s/patch.diff" % d, WT)
    if rc != 0:
        print(d, "DOES NOT APPLY:", o[-300:], flush=True); continue
    got = {}
    for p in PROPS:
        env = {"AXV_REPO": WT, "AXV_EVIDENCE_DIR": V + "/.cache/neutral_evidence" + WT.replace("/", "_")}
        if TGT:
            env["AXV_TARGET_DIR"] = TGT
        rc, o = sh("./axv check %s" % p, V, env)
        if rc == 2:
            got[p] = ["DOES-NOT-BUILD"]
        elif rc != 0:
            got[p] = [l.strip().split(" at ")[0].replace("violation ", "") for l in o.splitlines() if l.strip().startswith("violation")] \
                or ["rc=%d: %s" % (rc, o.strip()[-300:])]
    print(d, "SILENT" if not got else "FALSE-ALARM " + json.dumps(got)[:1500], flush=True)
sh("git checkout -- . && git clean -fdq crates", WT)
