#!/bin/bash
# Runs the repository's pinned suite in /repo (or $1) and prints pass/fail counts.
cd "${1:-/repo}" || exit 2
CARGO_NET_OFFLINE=true cargo test --workspace --no-fail-fast --offline 2>&1 | grep -E "^test result|FAILED|failed|panicked" | head -40
