#!/usr/bin/env python3
"""Copies evaluated sub-agent mutants (tools/eval_mutants.py results) that were confirmed — applies, suite green,
demonstration fails with the patch and passes without — into seeded/<id>/ (patch.diff, demo.diff, meta.json).
usage: curate_seeded.py <eval-results-dir> <id-suffix-prefix e.g. r2>   (detection is recorded separately)"""
import json, os, sys, shutil, glob, subprocess
V = "/verif"
res_dir, rnd = sys.argv[1], sys.argv[2]
head = subprocess.run("git -C /repo rev-parse --short HEAD", shell=True, stdout=subprocess.PIPE, text=True).stdout.strip()
def b(x):
    return x is True or str(x) == "True"
for f in sorted(glob.glob(res_dir + "/*.json")):
    r = json.load(open(f))
    ok = b(r["apply_ok"]) and int(r["suite_failed"]) == 0 and int(r["suite_passed"]) >= 645 and b(r["demo_fails_with_patch"]) and b(r["demo_passes_without_patch"])
    mid = "%s-%s%s" % (r["property"], rnd, os.path.basename(r["dir"]))
    if not ok:
        print(mid, "NOT CONFIRMED", {k: r[k] for k in ("apply_ok", "suite_passed", "suite_failed", "demo_fails_with_patch", "demo_passes_without_patch")})
        continue
    src = json.load(open(r["dir"] + "/meta.json"))
    d = "%s/seeded/%s/" % (V, mid)
    os.makedirs(d, exist_ok=True)
    shutil.copy(r["dir"] + "/patch.diff", d + "patch.diff")
    shutil.copy(r["dir"] + "/demo.diff", d + "demo.diff")
    old = json.load(open(d + "meta.json")) if os.path.exists(d + "meta.json") else {}
    meta = {
        "id": mid, "property": r["property"], "summary": src.get("summary"), "needs": src.get("needs"),
        "demo_cmd": r["demo_cmd"], "origin": "independent sub-agent (round %s) given only the property text, summaries of the changes collected before (to avoid), and a scratch worktree" % rnd.lstrip("r"),
        "adapted": None,
        "confirmed": {"repo_head": head, "applies": True, "suite_passed": int(r["suite_passed"]), "suite_failed": 0,
                      "demo_fails_with_patch": True, "demo_passes_without_patch": True,
                      "ran": "tools/eval_mutants.py: git apply patch.diff; cargo test --workspace --no-fail-fast --offline; git apply demo.diff; <demo_cmd>; git apply -R patch.diff; <demo_cmd>",
                      "observed_with_patch": src.get("observed_with_patch"), "observed_without_patch": src.get("observed_without_patch"),
                      "demo_output_with_patch": str(r.get("demo_with_patch", ""))[-600:]},
        "expected_detection": old.get("expected_detection"),
    }
    if old.get("notes"):
        meta["notes"] = old["notes"]
    json.dump(meta, open(d + "meta.json", "w"), indent=1)
    print(mid, "curated")
