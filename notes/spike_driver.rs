#![feature(rustc_private)]
extern crate rustc_driver;
extern crate rustc_hir;
extern crate rustc_interface;
extern crate rustc_middle;
extern crate rustc_span;

use rustc_driver::Compilation;
use rustc_hir::def::DefKind;
use rustc_interface::interface::Compiler;
use rustc_middle::mir::{Operand, TerminatorKind, Const};
use rustc_middle::ty::{self, TyCtxt, Instance, TypingEnv};
use std::fmt::Write as _;

struct Cb;
impl rustc_driver::Callbacks for Cb {
    fn after_analysis<'tcx>(&mut self, _c: &Compiler, tcx: TyCtxt<'tcx>) -> Compilation {
        let krate = tcx.crate_name(rustc_span::def_id::LOCAL_CRATE).to_string();
        if krate != "axmosdb" { return Compilation::Continue; }
        let mut out = String::new();
        let mut nfn = 0; let mut ncalls = 0; let mut unresolved = 0;
        for ldid in tcx.mir_keys(()) {
            let did = ldid.to_def_id();
            let kind = tcx.def_kind(did);
            if !matches!(kind, DefKind::Fn | DefKind::AssocFn | DefKind::Closure) { continue; }
            let body = tcx.optimized_mir(did);
            nfn += 1;
            let name = tcx.def_path_str(did);
            let span = tcx.def_span(did);
            let loc = tcx.sess.source_map().span_to_diagnostic_string(span);
            writeln!(out, "FN {} @ {}", name, loc).unwrap();
            for bb in body.basic_blocks.iter() {
                if let Some(term) = &bb.terminator {
                    if let TerminatorKind::Call { func, .. } = &term.kind {
                        ncalls += 1;
                        if let Operand::Constant(c) = func {
                            if let ty::FnDef(callee, args) = c.const_.ty().kind() {
                                let env = TypingEnv::post_analysis(tcx, did);
                                let res = Instance::try_resolve(tcx, env, *callee, args);
                                let rname = match res { Ok(Some(i)) => tcx.def_path_str(i.def_id()), _ => { unresolved += 1; format!("?{}", tcx.def_path_str(*callee)) } };
                                let cl = tcx.sess.source_map().span_to_diagnostic_string(term.source_info.span);
                                writeln!(out, "  CALL {} <{}> @ {}", rname, args.iter().map(|a| a.to_string()).collect::<Vec<_>>().join(","), cl).unwrap();
                            }
                        } else { writeln!(out, "  CALLIND").unwrap(); }
                    }
                }
            }
        }
        let path = std::env::var("FACTS_OUT").unwrap_or("/tmp/spike/facts.txt".into());
        std::fs::write(&path, out).unwrap();
        eprintln!("drv: {} fns {} calls {} unresolved -> {}", nfn, ncalls, unresolved, path);
        Compilation::Continue
    }
}
fn main() {
    let mut args: Vec<String> = std::env::args().collect();
    // RUSTC_WORKSPACE_WRAPPER: argv[1] is the real rustc path
    args.remove(1);
    rustc_driver::run_compiler(&args, &mut Cb);
}
