use axmosdb::{Database, DBConfig};
use std::panic;
fn show(label: &str, r: Result<axmosdb::runtime::QueryResult, axmosdb::DatabaseError>) {
    match r { Ok(q) => println!("{label}: OK {:?}", q), Err(e) => println!("{label}: ERR {e}") }
}
fn rows(db: &Database, sql: &str) -> String {
    match db.execute(sql) { Ok(q) => match q.into_rows() { Some(r) => r.iterrows().map(|row| row.iter().map(|v| v.to_string()).collect::<Vec<_>>().join(",")).collect::<Vec<_>>().join(" | "), None => "<norows>".into() }, Err(e) => format!("ERR {e}") }
}
fn main() {
    let which = std::env::args().nth(1).unwrap_or_default();
    let dir = tempfile::TempDir::new().unwrap();
    let path = dir.path().join("t.db");
    let db = Database::create(&path, DBConfig::default()).unwrap();
    match which.as_str() {
        "flush_then_use" => {
            db.execute("CREATE TABLE t (id BIGINT, v INT)").unwrap();
            for i in 0..150 { db.execute(&format!("INSERT INTO t VALUES ({i}, {i})")).unwrap(); }
            db.flush().unwrap();
            println!("count after flush: {}", rows(&db, "SELECT COUNT(*) FROM t"));
            for i in 0..5 { show("ins", db.execute(&format!("INSERT INTO t VALUES ({}, 1)", 5000+i))); }
            println!("count: {}", rows(&db, "SELECT COUNT(*) FROM t"));
        }
        "rollback_update" => {
            db.execute("CREATE TABLE t (id BIGINT, v INT)").unwrap();
            db.execute("INSERT INTO t VALUES (1, 10)").unwrap();
            { let mut s = db.session().unwrap(); s.execute("UPDATE t SET v = 99 WHERE id = 1").unwrap(); s.abort_transaction().unwrap(); }
            println!("after rollback: {}", rows(&db, "SELECT id, v FROM t"));
        }
        "div0" => {
            db.execute("CREATE TABLE t (id BIGINT, v INT)").unwrap();
            db.execute("INSERT INTO t VALUES (1, 10)").unwrap();
            for i in 0..3 { show(&format!("div {i}"), db.execute("SELECT v / 0 FROM t")); }
            show("after", db.execute("SELECT v FROM t"));
        }
        "not_prec" => {
            db.execute("CREATE TABLE t (id BIGINT, v INT)").unwrap();
            db.execute("INSERT INTO t VALUES (1, 2)").unwrap();
            // SQL: (NOT a) AND b = TRUE AND FALSE = FALSE -> 0 rows ; NOT (a AND b) = TRUE -> 1 row
            println!("NOT a AND b: {}", rows(&db, "SELECT id FROM t WHERE NOT v = 1 AND id = 5"));
            println!("explain: {:?}", db.explain("SELECT id FROM t WHERE NOT v = 1 AND id = 5"));
        }
        "negated" => {
            db.execute("CREATE TABLE t (id BIGINT, v INT)").unwrap();
            db.execute("INSERT INTO t VALUES (1, 10)").unwrap();
            db.execute("INSERT INTO t VALUES (2, NULL)").unwrap();
            println!("v NOT BETWEEN 5 AND 20: {}", rows(&db, "SELECT id FROM t WHERE v NOT BETWEEN 5 AND 20"));
            println!("v IS NOT NULL: {}", rows(&db, "SELECT id FROM t WHERE v IS NOT NULL"));
            println!("v NOT IN (10): {}", rows(&db, "SELECT id FROM t WHERE v NOT IN (10, 11)"));
        }
        "wal2" => {
            let big = "x".repeat(300);
            let mut acked = 0;
            for t in 0..4 { db.execute(&format!("CREATE TABLE t{t} (id BIGINT, v TEXT)")).unwrap();
              for i in 0..200 { db.execute(&format!("INSERT INTO t{t} VALUES ({i}, '{big}')")).unwrap(); acked += 1; } }
            println!("acked inserts: {acked}");
            let before: Vec<String> = (0..4).map(|t| rows(&db, &format!("SELECT COUNT(*) FROM t{t}"))).collect();
            println!("counts before crash: {:?}", before);
            std::mem::forget(db);
            let db2 = Database::open(&path, DBConfig::default());
            match db2 { Ok(d) => { let after: Vec<String> = (0..4).map(|t| rows(&d, &format!("SELECT COUNT(*) FROM t{t}"))).collect(); println!("counts after crash-reopen: {:?}", after); std::mem::forget(d); }, Err(e) => println!("open failed: {e}") }
        }
        "misc" => {
            db.execute("CREATE TABLE t (id BIGINT, v INT)").unwrap();
            db.execute("INSERT INTO t VALUES (1, 10)").unwrap();
            db.execute("INSERT INTO t VALUES (2, 20)").unwrap();
            show("subquery", db.execute("SELECT id FROM t WHERE v IN (SELECT v FROM t)"));
            show("case", db.execute("SELECT id FROM t WHERE CASE WHEN v = 10 THEN TRUE ELSE FALSE END"));
            show("typeerr", db.execute("SELECT id FROM t WHERE v LIKE 'a'"));
            db.execute("CREATE TABLE b (id BIGINT, x BIGINT)").unwrap();
            db.execute("INSERT INTO b VALUES (1, 9007199254740993)").unwrap();
            println!("bigeq: {}", rows(&db, "SELECT id FROM b WHERE x = 9007199254740992"));
            db.execute("CREATE TABLE f (id BIGINT, x DOUBLE)").unwrap();
            db.execute("INSERT INTO f VALUES (1, 0.0)").unwrap();
            db.execute("INSERT INTO f VALUES (2, -0.0)").unwrap();
            println!("distinct zero: {}", rows(&db, "SELECT DISTINCT x FROM f"));
            println!("eq zero: {}", rows(&db, "SELECT id FROM f WHERE x = 0.0"));
        }
        "vacdel" => {
            db.execute("CREATE TABLE t (id BIGINT, v INT)").unwrap();
            db.execute("INSERT INTO t VALUES (1, 10)").unwrap();
            { let mut s = db.session().unwrap(); s.execute("DELETE FROM t WHERE id = 1").unwrap(); s.abort_transaction().unwrap(); }
            println!("after rolled-back delete: {}", rows(&db, "SELECT id, v FROM t"));
            let _ = db.vacuum();
            std::mem::forget(db);
            let d = Database::open(&path, DBConfig::default()).unwrap();
            println!("after vacuum+reopen: {}", rows(&d, "SELECT id, v FROM t"));
        }
        "deep" => {
            let n = 200000; let sql = format!("SELECT {}1{}", "(".repeat(n), ")".repeat(n));
            show("deep", db.execute(&sql));
        }
        "d2" => {
            db.execute("CREATE TABLE t (id BIGINT, v INT)").unwrap();
            db.execute("INSERT INTO t VALUES (1, 10)").unwrap();
            { let mut s = db.session().unwrap(); s.execute("INSERT INTO t VALUES (2, 20)").unwrap(); s.abort_transaction().unwrap(); std::mem::forget(s); }
            println!("before crash: {}", rows(&db, "SELECT id FROM t"));
            std::mem::forget(db);
            let d = Database::open(&path, DBConfig::default()).unwrap();
            println!("after crash+reopen: {}", rows(&d, "SELECT id FROM t"));
            std::mem::forget(d);
        }
        "d4" => {
            db.execute("CREATE TABLE t (id BIGINT, v INT)").unwrap();
            db.execute("INSERT INTO t VALUES (1, 10)").unwrap();
            let mut s1 = db.session().unwrap(); let mut s2 = db.session().unwrap();
            println!("s1 upd {:?}", s1.execute("UPDATE t SET v = 11 WHERE id = 1").map(|_| ()).map_err(|e| e.to_string()));
            println!("s2 upd {:?}", s2.execute("UPDATE t SET v = 12 WHERE id = 1").map(|_| ()).map_err(|e| e.to_string()));
            println!("s1 commit {:?}", s1.commit_transaction().map_err(|e| e.to_string()));
            println!("s2 commit {:?}", s2.commit_transaction().map_err(|e| e.to_string()));
            std::mem::forget(s1); std::mem::forget(s2);
            println!("final: {}", rows(&db, "SELECT id, v FROM t"));
        }
        "d17" => {
            db.execute("CREATE TABLE t (id BIGINT, v INT)").unwrap();
            db.execute("INSERT INTO t VALUES (1, 10)").unwrap();
            { let mut s = db.session().unwrap(); println!("drop: {:?}", s.execute("DROP TABLE t").map(|_| ()).map_err(|e| e.to_string())); s.abort_transaction().unwrap(); std::mem::forget(s); }
            println!("after rolled-back DROP: {}", rows(&db, "SELECT id, v FROM t"));
            db.execute("CREATE TABLE u (id BIGINT, v INT)").unwrap();
            db.execute("INSERT INTO u VALUES (7, 70)").unwrap();
            println!("t after reuse: {}", rows(&db, "SELECT id, v FROM t"));
        }
        "d18" => {
            db.execute("CREATE TABLE t (id BIGINT, v INT)").unwrap();
            let mut s = db.session().unwrap(); s.execute("INSERT INTO t VALUES (1, 10)").unwrap();
            db.execute("CREATE TABLE u (id BIGINT, v INT)").unwrap(); // forces the log
            std::mem::forget(s); std::mem::forget(db);
            match Database::open(&path, DBConfig::default()) { Ok(d) => { println!("open ok: {}", rows(&d, "SELECT id FROM t")); std::mem::forget(d); } Err(e) => println!("open FAILED: {e}") }
        }
        "d19" => {
            db.execute("CREATE TABLE t (id BIGINT, v INT)").unwrap();
            db.execute("INSERT INTO t VALUES (1, 10)").unwrap();
            for _ in 0..8300 { db.execute("SELECT id FROM t").unwrap(); }
            { let mut s = db.session().unwrap(); s.execute("INSERT INTO t VALUES (2, 20)").unwrap(); s.abort_transaction().unwrap(); std::mem::forget(s); }
            println!("before close: {}", rows(&db, "SELECT id FROM t"));
            drop(db);
            let d = Database::open(&path, DBConfig::default()).unwrap();
            println!("after clean reopen: {}", rows(&d, "SELECT id FROM t"));
        }
        "d23" => {
            db.execute("CREATE TABLE t (id BIGINT, name TEXT)").unwrap();
            show("idx", db.execute("CREATE UNIQUE INDEX tn ON t (name)"));
            db.execute("INSERT INTO t VALUES (1, 'a')").unwrap();
            db.execute("UPDATE t SET name = 'z' WHERE id = 1").unwrap();
            println!("scan: {}", rows(&db, "SELECT id, name FROM t"));
            println!("by new key: {}", rows(&db, "SELECT id, name FROM t WHERE name = 'z'"));
            println!("by old key: {}", rows(&db, "SELECT id, name FROM t WHERE name = 'a'"));
            println!("explain: {:?}", db.explain("SELECT id, name FROM t WHERE name = 'z'"));
            show("reinsert old key a", db.execute("INSERT INTO t VALUES (2, 'a')"));
            show("insert dup new key z", db.execute("INSERT INTO t VALUES (3, 'z')"));
            println!("scan: {}", rows(&db, "SELECT id, name FROM t"));
        }
        "d15" => {
            let bytes = [1u8, 0x02, 0xff, 0xff, 0xff, 0xff];
            let r = axmosdb::tcp::Response::from_bytes(&bytes);
            println!("decoded: {:?}", r.map(|_| ()).map_err(|e| e.to_string()));
        }
        "d5" => {
            drop(db); std::fs::remove_file(&path).unwrap(); let _ = std::fs::remove_file(dir.path().join("axmos.log"));
            let cfg = DBConfig::builder().cache_size(12).build();
            let db = Database::create(&path, cfg).unwrap();
            for t in 0..3 { db.execute(&format!("CREATE TABLE t{t} (id BIGINT, v TEXT)")).unwrap(); }
            db.flush().ok();
            drop(db);
            let db = Database::open(&path, cfg).unwrap();
            let big = "y".repeat(400);
            let mut s = db.session().unwrap();
            let mut n = 0;
            for t in 0..3 { for i in 0..200 { match s.execute(&format!("INSERT INTO t{t} VALUES ({i}, '{big}')")) { Ok(_) => n += 1, Err(e) => { println!("ins err {e}"); break; } } } }
            println!("uncommitted inserts: {n}");
            std::mem::forget(s); std::mem::forget(db);
            match Database::open(&path, cfg) { Ok(d) => { for t in 0..3 { println!("t{t} after crash: {}", rows(&d, &format!("SELECT COUNT(*) FROM t{t}"))); } std::mem::forget(d); } Err(e) => println!("open FAILED: {e}") }
        }
        "wal3" => {
            let nt: usize = std::env::args().nth(2).unwrap().parse().unwrap();
            let ni: usize = std::env::args().nth(3).unwrap().parse().unwrap();
            let big = "x".repeat(300);
            for t in 0..nt { db.execute(&format!("CREATE TABLE t{t} (id BIGINT, v TEXT)")).unwrap();
              for i in 0..ni { db.execute(&format!("INSERT INTO t{t} VALUES ({i}, '{big}')")).unwrap(); } }
            std::mem::forget(db);
            match Database::open(&path, DBConfig::default()) { Ok(d) => { let after: Vec<String> = (0..nt).map(|t| rows(&d, &format!("SELECT COUNT(*) FROM t{t}"))).collect(); println!("counts after crash-reopen: {:?}", after); std::mem::forget(d); }, Err(e) => println!("open failed: {e}") }
        }
        "lsn" => {
            let big = "x".repeat(300);
            db.execute("CREATE TABLE t (id BIGINT, v TEXT)").unwrap();
            for i in 0..120 { db.execute(&format!("INSERT INTO t VALUES ({i}, '{big}')")).unwrap(); }
            let a = db.pager().write().run_analysis().unwrap();
            let all: Vec<u64> = a.lsn_chains.values().flat_map(|v| v.iter().copied()).collect();
            let mut d = all.clone(); d.sort(); d.dedup();
            println!("records read back: {}  distinct lsns: {}  max lsn: {:?}", all.len(), d.len(), d.last());
            std::mem::forget(db);
        }
        "d2b" => {
            db.execute("CREATE TABLE t (id BIGINT, v INT)").unwrap();
            db.execute("INSERT INTO t VALUES (1, 10)").unwrap();
            { let mut s = db.session().unwrap(); s.execute("INSERT INTO t VALUES (2, 20)").unwrap(); s.commit_transaction().unwrap(); }
            db.execute("INSERT INTO t VALUES (3, 30)").unwrap();
            println!("before crash: {}", rows(&db, "SELECT id FROM t"));
            std::mem::forget(db);
            let d = Database::open(&path, DBConfig::default()).unwrap();
            println!("after crash+reopen: {}", rows(&d, "SELECT id FROM t"));
            std::mem::forget(d);
        }
        "d26" => {
            db.execute("CREATE TABLE t (id BIGINT, v INT)").unwrap();
            for i in 0..20 { db.execute(&format!("INSERT INTO t VALUES ({i}, {i})")).unwrap(); }
            std::mem::forget(db);
            let d = Database::open(&path, DBConfig::default()).unwrap();
            println!("after 1st crash+reopen: {}", rows(&d, "SELECT COUNT(*) FROM t"));
            std::mem::forget(d);
            match Database::open(&path, DBConfig::default()) { Ok(d2) => { println!("after 2nd crash+reopen: {}", rows(&d2, "SELECT COUNT(*) FROM t")); std::mem::forget(d2); } Err(e) => println!("2nd open failed: {e}") }
        }
        _ => println!("?"),
    }
}
