#!/usr/bin/env python3
# exploration helper: python3 q.py '<expr using p>'
import sys,os
sys.path.insert(0,os.path.dirname(os.path.abspath(__file__)))
sys.dont_write_bytecode=True
from axvlib import core
d,_=core.facts_dir(os.environ.get("FEAT",""))
p=core.Program(d)
def calls(fid):
    for c in p.fn(fid).calls():
        print(c.bb, c.line, c.callee, c.gargs if len(str(c.gargs))<120 else '', '->', [t for t in p.targets(c) if t!=c.callee][:4])
def show(fid):
    f=p.fn(fid)
    import json
    for i,b in enumerate(f.blocks):
        print('bb',i,'idom',b['idom'],'cleanup' if b['cleanup'] else '')
        for s in b['stmts']: print('   ',s['l'],json.dumps(s['dst']),'=',json.dumps(s['rv']))
        t=dict(b['term']); 
        print('   T',json.dumps(t)[:400])
if __name__=="__main__":
    exec(sys.argv[1])
