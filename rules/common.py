import re
"""Anchors shared by several properties. Every anchor is looked up in the facts of
the current tree; a missing one raises AnchorMissing (the check fails closed)."""
from axvlib import core
from axvlib.core import AnchorMissing, op_local, op_const

WAL = "io::wal::WriteAheadLog"
PAGER = "io::pager::Pager"
CTX = "runtime::context::TransactionContext"
LOGGER = "runtime::context::TransactionLogger"
COORD = "multithreading::coordinator::TransactionCoordinator"
HANDLE = "multithreading::coordinator::TransactionHandle"
SYNC_ALL = "std::fs::File::sync_all"
SET_LEN = "std::fs::File::set_len"
PAGER_FLUSH = "<io::pager::Pager as std::io::Write>::flush"
WAL_FLUSH = "<io::wal::WriteAheadLog as std::io::Write>::flush"
WAL_TRUNCATE = "<io::wal::WriteAheadLog as io::disk::FileOperations>::truncate"
COMMIT_TX = CTX + "::commit_transaction"
ABORT_TX = CTX + "::abort_transaction"
PUSH_TO_LOG = PAGER + "::push_to_log"
LOG_OPERATION = LOGGER + "::log_operation"
OP_PREFIX = "io::logger::"


def need(p, *fids):
    for f in fids:
        p.fn(f)
    return fids if len(fids) > 1 else fids[0]


def log_force_fns(p):
    """methods of WriteAheadLog every success path of which reaches File::sync_all,
    closed under must-pass-through (DESIGN 3.4 derived anchor)."""
    T = p.must_reach_set({SYNC_ALL})
    base = {f for f in T if f in p.fns and (p.fns[f].impl_adt == WAL)
            and p.fns[f].impl_trait != "std::ops::Drop"
            and not f.endswith("::sync_all")}
    if not base:
        raise AnchorMissing("no method of WriteAheadLog reaches File::sync_all on every success path")
    return base


def durability_points(p):
    """functions all of whose success paths force the log (or checkpoint)"""
    base = log_force_fns(p)
    T = p.must_reach_set(base)
    return T


def operation_instantiations(p, fn_suffix="::push_to_log"):
    """call sites of push_to_log / log_operation with the concrete Operation type"""
    out = []
    for f in p.fns.values():
        for c in f.calls():
            if c.callee in (PUSH_TO_LOG, LOG_OPERATION) and c.gargs:
                out.append((c, c.gargs[0]))
    return out


def appends_of(p, optype):
    """functions that append a record of Operation type `optype` (directly)"""
    return sorted({c.fn.id for c, g in operation_instantiations(p) if g == OP_PREFIX + optype})


def callers_of(p, fid, allowed=None):
    return sorted(p.effective_callers(fid, allowed))


def family(p, f):
    """f, its closures, and - on an inlined view - the closures of the helpers that were inlined into it (the closure bodies are
    separate functions; what `iter().map(|e| e.state = X)` does is done there)"""
    ids = [f.id]
    for fid, _, _ in getattr(f, "origins", None) or ():
        if fid not in ids:
            ids.append(fid)
    out, seen = [f], {f.id}
    work = list(ids)
    while work:
        x = work.pop()
        for c in p.closure_children.get(x, ()):
            if c not in seen:
                seen.add(c)
                out.append(p.fns.view(c))
                work.append(c)
    return out


def each_fn(p):
    """every function, in id order: on the inlined evaluation the view of each function that is not itself dissolved into
    its callers (a rule that looks for a guard before a sink sees the guard a small helper was given)"""
    for k in sorted(p.raw_fns):
        if p.inline_mode and p.raw_fns[k].kind != "closure" and p.transparent(k):
            continue            # (its closures are bodies of their own and stay)
        yield p.fns.view(k)


def sites(p, fid, within=None):
    """call sites whose resolved callee is fid"""
    out = []
    if within:
        fns = [p.fns[within]]
    elif p.inline_mode:
        # views: a transparent helper's call sites are seen, inlined, in the views of the functions that call it
        fns = [p.fns.view(k) for k in p.fns if not p.transparent(p.raw_fns[k].root or k)]
    else:
        fns = p.fns.values()
    for f in fns:
        for c in f.calls():
            if c.callee == fid or fid in p.targets(c):
                out.append(c)
    return out


def short(fid):
    return fid


def runs_closure_arg(p, call):
    """closures passed as arguments at this call site"""
    cl = call.fn.closure_locals()
    out = []
    for o in call.args:
        l = op_local(o)
        if l is not None:
            out.extend(cl.get(l, ()))
    return out


# ---- panic surface -----------------------------------------------------------------------------
UNWRAPS = {
    "std::option::Option::<T>::expect": "Option::expect",
    "std::option::Option::<T>::unwrap": "Option::unwrap",
    "std::result::Result::<T, E>::expect": "Result::expect",
    "std::result::Result::<T, E>::unwrap": "Result::unwrap",
    "std::result::Result::<T, E>::unwrap_err": "Result::unwrap_err",
    "std::result::Result::<T, E>::expect_err": "Result::expect_err",
}


ATTRIBUTED = {}


def panic_sites(p, fns):
    """explicit panic constructs in the given functions (and their closures):
    returns {(fn id, kind): [call, ...]} with kind in Option::expect, Result::unwrap, panic!, ...
    Sites are attributed to the *root* function (a closure counts for the function that contains it). In inline mode the
    sites of a transparent helper (axvlib.core.Program.transparent) count for the functions that call it, and the helper
    has no entry of its own: moving an `expect` into an extracted helper does not change any count."""
    out = {}
    raw = p.raw_fns

    def own(fid):
        """sites in fid and its closures (raw view)"""
        res = []
        todo, seen = [fid], set()
        while todo:
            x = todo.pop()
            if x in seen or x not in raw:
                continue
            seen.add(x)
            todo.extend(p.closure_children.get(x, ()))
            f = raw[x]
            for c in f.calls():
                kind = UNWRAPS.get(c.callee)
                if kind is None and core.is_panic_fn(c.callee):
                    if f.blocks[c.bb]["cleanup"]:
                        continue
                    kind = "panic!"
                if kind:
                    res.append((kind, c))
        return res

    def helpers(fid, acc, depth=0):
        """transparent helpers called (directly, transitively through transparent helpers) from fid or its closures"""
        if depth > 3:
            return
        todo, seen = [fid], set()
        while todo:
            x = todo.pop()
            if x in seen or x not in raw:
                continue
            seen.add(x)
            todo.extend(p.closure_children.get(x, ()))
            for c in raw[x].calls():
                t = c.term["fn"].get("res")
                if t in raw and t not in acc and t != fid and t in scope and p.transparent(t):
                    acc.add(t)
                    helpers(t, acc, depth + 1)

    scope = {(raw[x].root or x) for x in fns if x in raw}
    roots = []
    for fid in fns:
        if fid not in raw:
            continue
        r = raw[fid].root or fid
        if r not in roots:
            roots.append(r)
    for r in roots:
        if p.inline_mode and p.transparent(r):
            continue
        sites = own(r)
        if p.inline_mode:
            hs = set()
            helpers(r, hs)
            ATTRIBUTED[r] = hs
            for h in sorted(hs):
                sites += own(h)
        for kind, c in sites:
            out.setdefault((r, kind), []).append(c)
    return out


def check_panic_budget(cx, rid, p, fns, budget, what):
    """budget: {(fn id, kind): max count} — the sites confirmed by hand (entries of closures count for their root function).
    More sites than budgeted in a function (or a function/kind not in the table) is reported; fewer is fine."""
    sites = panic_sites(p, fns)
    rooted = {}
    for (fid, kind), n in budget.items():
        r = (p.raw_fns[fid].root or fid) if fid in p.raw_fns else fid
        r = re.sub(r"(::\{closure#\d+\})+$", "", r)       # a closure that no longer exists still names its function
        rooted[(r, kind)] = rooted.get((r, kind), 0) + n
    for (fid, kind), cs in sorted(sites.items()):
        allowed = rooted.get((fid, kind), 0)
        if p.inline_mode:
            # the budget of a helper whose sites are counted here comes along with them
            allowed += sum(rooted.get((h, kind), 0) for h in ATTRIBUTED.get(fid, ()))
        cx.verdict(len(cs) <= allowed, rid, "%s:%s" % (fid, kind), cs[0].where(),
                   "%d site(s), %d justified: %s" % (len(cs), allowed, what),
                   "%d %s site(s) in %s, only %d justified (%s): a new panic on %s" % (
                       len(cs), kind, fid, allowed, ", ".join(c.where() for c in cs), what))
    return sites
