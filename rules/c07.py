"""C07 — UNIQUE, PRIMARY KEY and NOT NULL always hold in committed data (partly claimed)."""
from axvlib import core
from axvlib.core import AnchorMissing, op_local, op_const, enum_switches, dominated
from . import common as K

EXPLANATION = (
    "Decides the enforcement pipeline: every logged table write of a row image (the functions that append an Insert or "
    "Update record) is dominated by the constraint validator in the same function, so validation and write happen row "
    "by row and a later row of the same statement sees the earlier ones; both validators run the not-null, foreign-key "
    "and unique checks and an error of any of them is propagated; a violation makes the validator return Err; the "
    "unique probe decides on MVCC visibility only through the snapshot-aware decoder (no tombstone shortcuts); NOT "
    "NULL compares against the column flag; every table-constraint variant has an arm and UNIQUE/PRIMARY KEY create "
    "their unique index. Cross references: concurrent duplicate inserts need C04.3 (D4); re-keying on UPDATE is C06.3 (D23).")
NOT_DECIDED = "the histories themselves (which committed states arise)"
ASSUMPTIONS = []

DML = "runtime::dml::DmlExecutor"
VAL = "runtime::validator::ConstraintValidator"


def vmethod(p, name):
    return p.method(VAL, name)


def check(cx):
    p = cx.p
    ins_v = DML + "::validate_insert_constraints"
    upd_v = DML + "::validate_update_constraints"
    cx.guard("C07.1", ins_v, p.fn, ins_v)
    cx.guard("C07.1", upd_v, p.fn, upd_v)

    # ---- C07.1 validate before write, in the same function ----------------------------------------
    r1 = cx.rule("C07.1", "MPR: every function that appends an Insert/Update log record (= writes a row image into a "
                 "table) calls the matching constraint validator first, in the same function, and the validator "
                 "dominates both the log append and the B-tree write", floor=2)
    want = {"Insert": ins_v, "Update": upd_v}
    found = 0
    for c, g in K.operation_instantiations(p):
        kind = g.rsplit("::", 1)[-1]
        if kind not in want:
            continue
        # c is inside TransactionLogger::log_insert/log_update; the writers are its callers
        for site in K.sites(p, c.fn.id):
            f = site.fn
            if f.impl_adt == K.LOGGER:
                continue
            found += 1
            good = p.dominated_interproc(f, site.bb, {want[kind]})
            # ... and the validator's error leaves the function: site not reachable from the error arm is implied by `?`
            cx.verdict(good, r1, "%s@%s" % (kind, f.id), site.where(),
                       "%s dominates the logged write" % want[kind].rsplit("::", 1)[-1],
                       "%s writes a row (appends a %s record) without validating constraints first in the same "
                       "function: validation and write are decoupled (e.g. all rows validated before any is written)" % (f.id, kind))
    # validation is per row: every call of a validator is followed, on every success path, by the logged write
    # of that row (a validator called ahead of time for a batch of rows cannot see the earlier rows of the batch)
    writers = {"Insert": set(), "Update": set()}
    for c, g in K.operation_instantiations(p):
        kind = g.rsplit("::", 1)[-1]
        if kind in writers:
            writers[kind].add(c.fn.id)
    for v, kind in ((ins_v, "Insert"), (upd_v, "Update")):
        for site in K.sites(p, v):
            f = site.fn
            good = site.term["to"] is not None and p.followed_interproc(f, site.term["to"], writers[kind])
            cx.verdict(good, r1, "validated-row-is-written:%s@%s" % (kind, f.id), site.where(), "validation is followed by the write of the same row",
                       "%s validates a row without writing it on every success path: validation and write are decoupled, "
                       "rows of one statement are checked before earlier rows of the same statement exist" % f.id)

    # ---- C07.2 both validators run the three checks and propagate their errors ------------------------
    r2 = cx.rule("C07.2", "SIB: validate_insert_constraints and validate_update_constraints both call the not-null, "
                 "foreign-key and unique checks on every success path (an Err of a check cannot be dropped)", floor=6)
    checks = {}
    for n in ("validate_not_null_constraints", "validate_foreign_key_constraints", "validate_unique_constraints"):
        m = cx.guard(r2, n, vmethod, p, n)
        if m:
            checks[n] = m.id
    for v in (ins_v, upd_v):
        f = p.fns.get(v)
        if not f:
            continue
        for n, cid in checks.items():
            good = p.all_success_paths_call(f, {cid}, 0)
            # error propagation: after the call, an error block is reachable (the `?`)
            for c in f.calls():
                if c.callee == cid:
                    good = good and bool(f.reachable(c.term["to"]) & f.err_blocks())
            cx.verdict(good, r2, "%s:%s" % (v.rsplit("::", 1)[-1], n), f.where(), "called on every success path, error propagated",
                       "%s can succeed without (the result of) %s" % (v, n))

    # ---- C07.3 a violation is an error --------------------------------------------------------------
    r3 = cx.rule("C07.3", "FLOW: validate_unique_constraints returns Err when search_index reports a conflict; "
                 "validate_not_null_constraints returns Err when a non-null column holds NULL, testing the column's "
                 "is_non_null flag and the value's is_null", floor=3)
    fu = p.fns.get(checks.get("validate_unique_constraints", ""))
    si = cx.guard(r3, "search_index", vmethod, p, "search_index")
    if fu and si:
        calls = [c for c in fu.calls() if c.callee == si.id]
        good = bool(calls)
        why = ""
        for c in calls:
            # a switch on the (unwrapped) result must lead to an Err aggregate on its true arm
            res = op_local({"c": c.dst})
            sw = [(bi, b["term"]) for bi, b in enumerate(fu.blocks) if b["term"]["t"] == "switch"
                  and op_local(b["term"]["o"]) is not None and res in fu.dep_closure(op_local(b["term"]["o"]))
                  and b["term"]["ty"] == "bool"]
            ok1 = False
            for bi, t in sw:
                # false arm is value 0; from the otherwise arm (true) the block that builds
                # Err(UniqueConstraintViolated) must really be reachable (constant conditions threaded away)
                tgt = t["otherwise"]
                reach = fu.reachable_threaded(tgt)
                errs = [s for _, s in core.region_aggregates(fu, reach) if s["rv"].get("variant") == "UniqueConstraintViolated"]
                ok1 = ok1 or bool(errs)
            good = good and ok1
        cx.verdict(good, r3, "unique:conflict-is-error", fu.where(), "conflict arm builds UniqueConstraintViolated",
                   "a conflict reported by search_index no longer produces UniqueConstraintViolated")
    fn_ = p.fns.get(checks.get("validate_not_null_constraints", ""))
    if fn_:
        # the test may be the loop body or the predicate closure of a search (`.find(|(col, v)| col.is_non_null && v.is_null())`)
        fam = [fn_] + [p.fn(c) for c in p.closure_children.get(fn_.id, ())]

        def reads(g):
            return any(any(isinstance(pe, str) and pe.startswith(".is_non_null:") for pe in (op.get("c") or op.get("m") or [])[1:])
                       for b in g.blocks for s in b["stmts"] for op in (s["rv"].get("o") or []) if isinstance(s["rv"].get("o"), list)) or \
                any(isinstance(pe, str) and pe.startswith(".is_non_null:") for b in g.blocks if b["term"]["t"] == "switch"
                    for pe in (b["term"]["o"].get("c") or b["term"]["o"].get("m") or [])[1:])
        reads_flag = any(reads(g) for g in fam)
        isnull = [c for c in fn_.calls() if c.callee.endswith("::is_null")]
        # calls of fn_ that run a closure of the family which asks is_null (and reads the flag)
        via = [c for c in fn_.calls() if any(t in p.raw_fns and p.raw_fns[t].kind == "closure" and (p.raw_fns[t].root or "") == (fn_.root or fn_.id)
                                              and any(x.callee.endswith("::is_null") for x in p.fn(t).calls()) for t in p.targets(c))]
        errs = [s for _, s in core.region_aggregates(fn_, range(len(fn_.blocks))) if s["rv"].get("variant") == "NonNullConstraintViolated"]
        good = reads_flag and bool(isnull or via) and bool(errs)
        if good:
            # the error is built only where is_null returned true: the Err region is dominated by the is_null test
            eb = [bi for bi, s in core.region_aggregates(fn_, range(len(fn_.blocks))) if s["rv"].get("variant") == "NonNullConstraintViolated"]
            good = all(any(fn_.dominates(c.bb, b) for c in isnull + via) for b in eb)
        cx.verdict(good, r3, "not-null:flag-and-value", fn_.where(), "tests is_non_null and is_null, then errors",
                   "validate_not_null_constraints no longer tests the column flag and the value before rejecting")
        # every column is visited: the loop is over schema.iter_columns()
        it = [c for c in fn_.calls() if c.callee.endswith("::iter_columns")]
        cx.verdict(bool(it), r3, "not-null:all-columns", fn_.where(), "iterates schema.iter_columns()",
                   "validate_not_null_constraints no longer iterates all columns")

    # ---- C07.4 the unique probe decides by snapshot visibility only ------------------------------------
    r4 = cx.rule("C07.4", "WMC: inside search_index the only tuple predicates consulted are the snapshot-aware decode "
                 "(parse_for_snapshot) and the excluded-row test; raw tombstone/visibility predicates are not called",
                 floor=1)
    if si:
        fam = [si] + [p.fns[c] for c in p.closure_children.get(si.id, ())]
        called = set()
        for g in fam:
            called |= {c.callee for c in g.calls()}
        pfs = "storage::tuple::TupleReader::<'a>::parse_for_snapshot"
        raw = {x for x in called if x.rsplit("::", 1)[-1] in (
            "is_tuple_deleted", "is_deleted", "is_visible", "is_tuple_visible", "global_xmax", "version_xmax", "xmax",
            "parse_last_version", "as_tuple_ref_with", "from_slice_unchecked")}
        cx.verdict(pfs in called and not raw, r4, "search_index", si.where(), "decides through parse_for_snapshot only",
                   "the unique probe consults %s: a visible entry with a pending/rolled-back delete (or an invisible "
                   "one) is misjudged" % sorted(raw or {"no snapshot-aware decode"}))

    # ---- C07.5 constraint variants ------------------------------------------------------------------------
    r5 = cx.rule("C07.5", "TAB: every TableConstraint variant has an arm in DdlExecutor::add_constraint; the Unique and "
                 "PrimaryKey arms create the unique index; PrimaryKey marks its columns non-null", floor=3)
    f = cx.guard(r5, "add_constraint", p.fn, "runtime::ddl::DdlExecutor::add_constraint")
    if f:
        sws = [x for x in enum_switches(p, f) if x[1].endswith("TableConstraint")]
        if not sws:
            cx.bad(r5, "no-match", f.where(), "add_constraint does not match on TableConstraint")
        else:
            bi, adt, m, oth, _ = sws[0]
            cui = "runtime::ddl::DdlExecutor::create_unique_index"
            for v in p.enum_variants(adt):
                tgt = m.get(v["name"], oth)
                reg = dominated(f, tgt) if v["name"] in m else set()
                has = v["name"] in m and not core.diverges(f, tgt)
                if v["name"] in ("Unique", "PrimaryKey"):
                    has = has and any(c.callee == cui for c in f.calls() if c.bb in reg)
                if v["name"] == "PrimaryKey":
                    st = [s for b in reg for s in f.blocks[b]["stmts"]
                          if any(isinstance(pe, str) and pe.startswith(".is_non_null:") for pe in s["dst"][1:])]
                    has = has and bool(st)
                cx.verdict(has, r5, v["name"], f.where(), "arm present" + (", creates unique index" if v["name"] != "ForeignKey" else ""),
                           "the %s arm of add_constraint is missing or no longer creates the unique index / non-null marks" % v["name"])

    # ---- C07.6 the three key builders of a unique index agree on the key layout ------------------------------------
    r6 = cx.rule("C07.6", "SIB: the uniqueness probe (ConstraintValidator::search_index), the DML entry builder "
                 "(DmlExecutor::build_index_entry) and the bulk loader (DdlExecutor::populate_index) each build the key in a "
                 "loop over the *declared* indexed-column list (a `&[usize]` slice iterator fed by indexed_column_ids() or by "
                 "the parameter holding it), pushing inside that loop: stored key and probe key list the columns in the same "
                 "order", floor=3)
    from axvlib.core import natural_loops
    builders = [(si.id if si else None, "search_index"), (DML + "::build_index_entry", "build_index_entry"),
                ("runtime::ddl::DdlExecutor::populate_index", "populate_index")]
    for fid, nm in builders:
        g = p.fns.get(fid) if fid else None
        if g is None:
            cx.bad(r6, "anchor-missing:" + nm, "", "key builder %s not found" % nm)
            continue
        srcs = {op_local({"c": c.dst}) for c in g.calls() if c.callee.endswith("::indexed_column_ids")}
        srcs |= {i for i in range(1, g.nargs + 1) if g.rec["locals"][i].replace(" ", "") in ("&[usize]", "&'a[usize]")}
        good = False
        for h, body in natural_loops(g):
            nx = [c for c in g.calls() if c.bb in body and c.defn == "std::iter::Iterator::next" and
                  any("slice::Iter<'_, usize>" in a for a in c.gargs)]
            fed = [c for c in nx if srcs & g.dep_closure(op_local(c.args[0]))]
            adds = [c for c in g.calls() if c.bb in body and (c.callee.endswith("Vec::<T, A>::push") or c.callee.endswith("::extend_from_slice"))]
            if fed and adds:
                good = True
        # iterator-adaptor form of the same loop: `ids.iter().map(|c| row[*c] ...).collect()`
        for c in g.calls():
            if c.defn in ("std::iter::Iterator::map", "std::iter::Iterator::filter_map", "std::iter::Iterator::for_each",
                          "std::iter::Iterator::flat_map", "std::iter::Iterator::try_for_each") and c.gargs and \
                    "slice::Iter<'_, usize>" in c.gargs[0] and srcs & g.dep_closure(op_local(c.args[0])):
                good = True
        cx.verdict(good, r6, nm, g.where(), "key built in a loop over the declared column list",
                   "%s does not build its key by walking the declared indexed-column list: for an index declared in another "
                   "order than the table columns (UNIQUE(b, a)) the stored key and the probe key differ and duplicates are "
                   "accepted" % g.id)

    # ---- C07.7 (construct shared with C13.1) -----------------------------------------------------------------------
    from . import c13
    cx.include(c13, {"C13.1"}, "C07.7", "shared with C13.1: VACUUM forgets the aborted ids, so it must persist the removal of a "
               "rolled-back deletion mark (index entries never shrink, so they are written back only for that reason); a mark "
               "left on a unique-index entry turns into a committed delete and the key is accepted a second time", floor=3)

    # ---- C07.8 (construct shared with C06.3) ---------------------------------------------------------------------------
    from . import c06
    cx.include(c06, {"C06.3"}, "C07.8", "shared with C06.3: the unique index is what UNIQUE is judged by, so its maintenance arms must keep an entry "
               "per live row under the row's current key, stamped with the right creator and deleter", floor=6)

    # ---- C07.9 (construct shared with C15.8) ---------------------------------------------------------------------------
    from . import c15
    cx.include(c15, {"C15.8"}, "C07.9", "shared with C15.8: the logged inverse of a NOT NULL change restores the recorded previous state; recovery "
               "that undoes a redundant SET NOT NULL must not drop the constraint (NULLs would then be accepted and committed)", floor=4)

    # ---- C07.10 (construct shared with C15.10) ---------------------------------------------------------------------------
    cx.include(c15, {"C15.10"}, "C07.10", "shared with C15.10: the index registrations a CREATE TABLE makes for its UNIQUE constraints must survive the "
               "later steps of the same statement; a stale catalog row written back by the PRIMARY KEY step erases them and the "
               "constraint is never consulted again", floor=2)

    # ---- C07.11 every unique index is probed, or skipped only by a disjointness test ---------------------------------------
    r11 = cx.rule("C07.11", "MPT: in validate_unique_constraints every trip round the loop over the table's indexes reaches search_index; an index "
                  "may be skipped only on a test of the form `no key column is touched` (Iterator::any / is_disjoint over the key columns): "
                  "a filter of another form (e.g. `all key columns are assigned`) lets a partial-key UPDATE create a duplicate", floor=1)
    fu = p.fns.get(checks.get("validate_unique_constraints", ""))
    if fu and si:
        from axvlib.core import natural_loops as _nl7
        probes = [c for c in fu.calls() if c.callee == si.id]
        lps = [(h, body) for h, body in _nl7(fu) if any(c.bb in body for c in probes)]
        if not probes or not lps:
            cx.bad(r11, "probe-loop", fu.where(), "validate_unique_constraints does not probe the indexes in a loop")
        else:
            h, body = max(lps, key=lambda x: len(x[1]))
            kill = {c.bb for c in probes}
            nxt = [c for c in fu.calls() if c.bb == h and c.defn == "std::iter::Iterator::next"]
            some = None
            for bi, adt, m, oth, src in enum_switches(p, fu):
                if nxt and bi == nxt[0].term["to"] and adt == "std::option::Option":
                    some = m.get("Some", oth)
            skip_path = False
            deciders = set()
            if some is not None:
                seen_b, work = set(), [some]
                while work:
                    u = work.pop()
                    if u in seen_b or u in kill or u not in body or fu.blocks[u]["cleanup"]:
                        continue
                    seen_b.add(u)
                    for v in fu.succ(u):
                        if v == h:
                            skip_path = True
                        else:
                            work.append(v)
                if skip_path:
                    # which calls feed the branches that can leave the iteration without probing
                    for u in seen_b:
                        t = fu.blocks[u]["term"]
                        if t["t"] == "switch" and op_local(t["o"]) is not None:
                            cl = fu.dep_closure(op_local(t["o"])) | {op_local(t["o"])}
                            for c in fu.calls():
                                if c.dst and c.dst[0] in cl and c.bb in body:
                                    deciders.add(c.defn.rsplit("::", 1)[-1])
            sound = {"any", "is_disjoint", "intersection", "is_empty", "next", "is_some", "is_none", "branch",
                     # accessors that only hand the key columns / the assigned set to the test
                     "iter", "indexed_column_ids", "into_iter", "deref", "as_ref", "as_deref", "contains", "get", "map", "copied",
                     "cloned", "clone", "len", "keys", "id"}
            bad_dec = sorted(d for d in deciders if d not in sound)
            cx.verdict((not skip_path) or (("any" in deciders or "is_disjoint" in deciders) and not bad_dec), r11, "every-index-probed", fu.where(),
                       "every index is probed" if not skip_path else "an index is skipped only when none of its key columns is touched",
                       "validate_unique_constraints can finish an index without probing it, decided by %s: an UPDATE that assigns only part of a "
                       "composite key is not checked against the rows that already hold the resulting key" % (bad_dec or sorted(deciders)))

    # ---- C07.12 (construct shared with C15.11) ---------------------------------------------------------------------------
    cx.include(c15, {"C15.11"}, "C07.12", "shared with C15.11: SET NOT NULL always leaves the column NOT NULL (it stores the constant, not the "
               "instruction's previous-state flag); otherwise a repeated migration makes the column nullable and NULLs are committed", floor=2)

    # ---- C07.13 (construct shared with C04.2) --------------------------------------------------------------------------
    from . import c04 as _c04
    cx.include(_c04, {"C04.2"}, "C07.13", "shared with C04.2: the unique index is built and probed through snapshot-aware reads only - who reads a "
               "stored tuple raw (Tuple::is_deleted, get_tuple_at_unchecked) is a frozen table; an index back-fill that skips every "
               "row carrying a deletion mark leaves out rows whose DELETE was rolled back, and a duplicate key is accepted later", floor=2)
