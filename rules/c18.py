"""C18 — row versions decode to the right values for every snapshot (partly claimed)."""
from axvlib import core
from axvlib.core import AnchorMissing, op_local, op_const, enum_switches, dominated, natural_loops
from . import common as K
from . import dec_refs
from . import c03

EXPLANATION = (
    "Decides the structure of the version-chain codec: writer (write_delta) and the two production readers "
    "(parse_for_snapshot, vaccum_with) agree on the per-delta sequence — header, change count, full null bitmap, then per "
    "change an index byte and a value that is written/read only when the delta's own bitmap says not-null; "
    "parse_for_snapshot returns a version only after the deleted-before-my-snapshot test, walks older versions by moving "
    "xmin to xmax, and returns an older version only when its creator is committed-before; the decision table of "
    "is_valid_for_snapshot equals the reference; stamps written into new versions are the writer's id (known finding "
    "D3); the u8 version counter is unchecked (known finding D12).")
NOT_DECIDED = "offset arithmetic and alignment of values; identity of encode followed by decode for every type"
ASSUMPTIONS = []

TUP = "storage::tuple::Tuple"
TR = "storage::tuple::TupleReader::<'a>::"


def loop_with(f, pred):
    for h, body in natural_loops(f):
        if any(pred(c) for c in f.calls() if c.bb in body):
            yield h, body


def check(cx):
    p = cx.p
    # ---- C18.1 walkers agree -----------------------------------------------------------------
    r1 = cx.rule("C18.1", "SIB: parse_for_snapshot and vaccum_with read each delta as [DeltaHeader, count byte, full null "
                 "bitmap, per change: index byte, value iff the delta bitmap says not-null]; write_delta writes the same "
                 "sequence (value iff !is_null)", floor=3)
    for fid in (TR + "parse_for_snapshot", TUP + "::vaccum_with"):
        f = cx.guard(r1, fid, p.fn, fid)
        if not f:
            continue
        loops = list(loop_with(f, lambda c: c.callee.endswith("DeltaHeader::read_from")))
        if not loops:
            cx.bad(r1, fid.rsplit("::", 1)[-1] + ":no-delta-loop", f.where(), "no loop reading DeltaHeader")
            continue
        h, body = loops[0]
        des = [c for c in f.calls() if c.bb in body and c.callee.endswith("::deserialize")]
        nul = [c for c in f.calls() if c.bb in body and c.callee.endswith("::check_null")]
        good = bool(des) and bool(nul)
        for d in des:
            ok1 = False
            for bi in body:
                t = f.blocks[bi]["term"]
                if t["t"] == "switch" and f.dominates(bi, d.bb) and bi != d.bb:
                    dl = op_local(t["o"])
                    if dl is not None and any(op_local({"c": n.dst}) in (f.dep_closure(dl) | {dl}) for n in nul):
                        # deserialize must be on one arm only
                        arms = set([x[1] for x in t["targets"]] + [t["otherwise"]])
                        on = [a for a in arms if d.bb in f.reachable(a, blocked={bi, h})]
                        ok1 = ok1 or len(on) == 1
            good = good and ok1
        # the null test consults the bitmap slice taken in this delta (not the base tuple's)
        cx.verdict(good, r1, fid.rsplit("::", 1)[-1] + ":value-iff-not-null", f.where(),
                   "deserialize is control-dependent on check_null inside the delta loop",
                   "%s reads a change's value without (or regardless of) the delta's null bit: a NULL old value stored "
                   "no bytes, so the walker runs past the delta" % fid.rsplit("::", 1)[-1])
    fw = cx.guard(r1, "write_delta", p.fn, TUP + "::write_delta")
    if fw:
        wr = [c for c in fw.calls() if c.callee.endswith("::write_to") and "DeltaHeader" not in c.callee]
        isn = [c for c in fw.calls() if c.callee.endswith("::is_null")]
        hdr = [c for c in fw.calls() if c.callee.endswith("DeltaHeader::new")]
        good = bool(wr) and bool(isn) and bool(hdr)
        for w in wr:
            good = good and any(fw.dominates(n.bb, w.bb) for n in isn)
        cx.verdict(good, r1, "write_delta:value-iff-not-null", fw.where(), "value written only after the is_null test",
                   "write_delta writes a change's value without testing is_null (readers skip NULL values)")

    # ---- C18.2 parse_for_snapshot protocol -------------------------------------------------------
    r2 = cx.rule("C18.2", "MPR/FLOW: in parse_for_snapshot every `Some(layout)` result is dominated by the test that the "
                 "newest version's deleter is not committed-before the snapshot; inside the delta walk the next version's "
                 "xmax is the previous version's xmin and a version is returned only under is_committed_before_snapshot("
                 "its xmin)", floor=3)
    f = cx.guard(r2, "parse_for_snapshot", p.fn, TR + "parse_for_snapshot")
    if f:
        icb = "multithreading::coordinator::Snapshot::is_committed_before_snapshot"
        calls = [c for c in f.calls() if c.callee == icb]
        loops = list(loop_with(f, lambda c: c.callee.endswith("DeltaHeader::read_from")))
        body = loops[0][1] if loops else set()
        pre = [c for c in calls if c.bb not in body]
        inl = [c for c in calls if c.bb in body]
        somes = [bi for bi, s in core.region_aggregates(f, range(len(f.blocks)), "std::option::Option") if s["rv"]["variant"] == "Some"
                 and any(f.locals[op_local(o)].endswith("TupleLayout") for o in s["rv"]["o"] if op_local(o) is not None)]

        def arg_reads(c, field):
            l = op_local(c.args[1])
            cl = f.dep_closure(l) | {l}
            return any(any(isinstance(pe, str) and pe.startswith("." + field + ":") for pe in (o.get("c") or o.get("m") or [])[1:])
                       for b in f.blocks for s in b["stmts"] if s["dst"][0] in cl
                       for o in (s["rv"].get("o") or []) if isinstance(s["rv"].get("o"), list)) or \
                any(any(isinstance(pe, str) and pe.startswith("." + field + ":") for pe in (o.get("c") or o.get("m") or [])[1:]) for o in [c.args[1]])
        xmax_checks = [c for c in pre if arg_reads(c, "version_xmax")]

        def reads_xmax(l):
            ls = f.provenance_locals(l) | {l}
            return any(any(isinstance(pe, str) and pe.startswith(".version_xmax:") for pe in (o.get("c") or o.get("m") or [])[1:])
                       for b in f.blocks for s in b["stmts"] if s["dst"][0] in ls and isinstance(s["rv"].get("o"), list)
                       for o in s["rv"]["o"])
        # the same test written with an adaptor: version_xmax.is_some_and(|xmax| snapshot.is_committed_before_snapshot(xmax))
        for c in f.calls():
            if c.bb in body or not c.callee.startswith("std::option::Option") or c.callee.rsplit("::", 1)[-1] != "is_some_and":
                continue
            clo = [p.fn(t) for t in p.targets(c) if t in p.raw_fns and p.raw_fns[t].kind == "closure"]
            if len(clo) == 1 and op_local(c.args[0]) is not None and reads_xmax(op_local(c.args[0])):
                g = clo[0]
                inner = g.nearest_calls(0)
                par = [x for x in g.calls() if x.callee == icb and op_local(x.args[1]) is not None
                       and ("param", 2) in g.nearest_calls(op_local(x.args[1]))]
                if inner == {("call", icb)} and par:
                    xmax_checks.append(c)
        # gates: the branches on the result of such a test; the `deleter is visible` arm must not lead to a Some-result, and
        # no path reaches a Some-result without either passing a gate or finding that the row has no deleter
        gates = []
        for c in xmax_checks:
            for gi, g in enumerate(f.blocks):
                t = g["term"]
                if t["t"] == "switch" and t.get("ty") == "bool" and op_local(t["o"]) is not None:
                    nc = f.nearest_calls(op_local(t["o"]))
                    res = op_local({"c": c.dst})
                    if res in (f.provenance_locals(op_local(t["o"])) | {op_local(t["o"])}) and len(nc) == 1:
                        gates.append((gi, t))
        no_deleter = set()      # edges (switch block, target): the row has no deleter
        for x in enum_switches(p, f):
            if x[1] == "std::option::Option" and x[0] not in body and any(isinstance(pe, str) and pe.startswith(".version_xmax:") for pe in x[4][1:]):
                no_deleter.add((x[0], x[2].get("None", x[3])))
        adaptor = any(c.callee.endswith("is_some_and") for c in xmax_checks)
        good = bool(xmax_checks) and bool(somes) and bool(gates) and (bool(no_deleter) or adaptor)
        if good:
            for gi, t in gates:
                good = good and not (f.reachable(t["otherwise"], blocked={gi}) & set(somes))
            good = good and not (f.reachable(0, blocked={gi for gi, _ in gates}, edge_filter=lambda a, b_: (a, b_) not in no_deleter) & set(somes))
        cx.verdict(good, r2, "deleted-before-snapshot-first", f.where(), "%d Some-results, none reachable past a visible deleter" % len(somes),
                   "parse_for_snapshot can return a version without first testing whether the row's deleter is visible: "
                   "an updated-then-deleted row comes back as its previous version")
        head = loops[0][0] if loops else -1
        some_in = [b for b in somes if head >= 0 and f.dominates(head, b)]
        good = bool(inl) and bool(some_in) and all(any(f.dominates(c.bb, b) for c in inl if arg_reads(c, "version_xmin")) for b in some_in)
        cx.verdict(good, r2, "older-version-needs-committed-creator", f.where(), "older version returned under is_committed_before_snapshot(version_xmin)",
                   "an older version is returned from the delta walk without asking whether its creator is visible")
        st = [s for b in body for s in f.blocks[b]["stmts"] if any(isinstance(pe, str) and pe.startswith(".version_xmax:") for pe in s["dst"][1:])]
        good = bool(st)
        for s in st:
            srcs = set()
            for o in s["rv"].get("o", []):
                l = op_local(o)
                for b in f.blocks:
                    for s2 in b["stmts"]:
                        if l is not None and s2["dst"][0] in (f.dep_closure(l) | {l}):
                            for o2 in (s2["rv"].get("o") or []) if isinstance(s2["rv"].get("o"), list) else []:
                                for pe in (o2.get("c") or o2.get("m") or [])[1:]:
                                    if isinstance(pe, str) and pe.startswith(".version_xmin:"):
                                        srcs.add("version_xmin")
                for pe in (o.get("c") or o.get("m") or [])[1:]:
                    if isinstance(pe, str) and pe.startswith(".version_xmin:"):
                        srcs.add("version_xmin")
            good = good and "version_xmin" in srcs
        cx.verdict(good, r2, "xmax-of-older-is-xmin-of-newer", f.where(), "version_xmax := previous version_xmin",
                   "the delta walk does not bound an older version by the newer version's creator")

    # ---- C18.3 stamps and counter (shared constructs) ---------------------------------------------------
    r3 = cx.rule("C18.3", "FLOW/PANIC: add_version_with stamps the new version with new_xmin (C03.3) and its u8 version "
                 "increment is range-checked (C16.3)", floor=2)
    fv = cx.guard(r3, "add_version_with", p.fn, TUP + "::add_version_with")
    if fv:
        w = c03.param_reaches_call(p, fv, 3, lambda c: c in (c03.HDR_NEW, c03.DHDR_NEW) or c.endswith("::write_delta"))
        cx.verdict(bool(w), r3, "add_version_with.new_xmin->stamp", fv.where(), "new_xmin reaches a version stamp",
                   "add_version_with ignores new_xmin: every version keeps the row creator's xmin, so older versions "
                   "are unreachable through normal snapshots and an uncommitted UPDATE is visible (D3)")
        asserts = [(bi, b["term"]) for bi, b in enumerate(fv.blocks) if b["term"]["t"] == "assert" and b["term"]["msg"] == "Overflow(Add)"
                   and any((fv.locals[op_local(o)] if op_local(o) is not None else (op_const(o) or {}).get("ty")) == "u8" for o in b["term"]["mo"])]
        cx.verdict(not asserts, r3, "version-counter", fv.where(), "no unchecked u8 version increment",
                   "old_version + 1 on a u8: the 256th version of a row cannot be encoded (panic) (D12)")

    # ---- C18.4 decision table -------------------------------------------------------------------------------
    r4 = cx.rule("C18.4", "DEC: decision table of TupleLayout::is_valid_for_snapshot equals the reference", floor=1)
    dec_refs.check_valid_for_snapshot(cx, r4, p)

    # ---- C18.5 / C18.6 (constructs shared with C04.7 and C13.1) ---------------------------------------------------------
    from . import c04, c13
    cx.include(c04, {"C04.7"}, "C18.5", "shared with C04.7: the deleter stamp of a version is written once (a second deleter never "
               "overwrites the first), so the stamp a snapshot decodes against is the stamp of the transaction that deleted", floor=1)
    cx.include(c13, {"C13.1"}, "C18.6", "shared with C13.1: VACUUM, which forgets the aborted ids, removes a version only after asking "
               "for the fate of its stamps and persists the removal of a rolled-back deletion mark; otherwise a version decodes "
               "to nothing for every later snapshot although no committed transaction deleted it", floor=3)

    # ---- C18.7 what goes into a new version is not decided by the numeric-promoting equality ------------------------------
    r7 = cx.rule("C18.7", "WMC: while `DataType == DataType` compares integers through f64 (C19.2, known finding D20) it must not decide what a "
                 "row version stores: nothing reachable from Tuple::add_version_with (the UPDATE path of the storage layer) calls "
                 "the PartialEq impls of DataType/DataTypeRef", floor=1)
    avw = "storage::tuple::Tuple::add_version_with"
    fav = cx.guard(r7, "add_version_with", p.fn, avw)
    if fav:
        EQS = {"<types::DataType as std::cmp::PartialEq>::eq", "<types::DataTypeRef<'_> as std::cmp::PartialEq>::eq",
               "<types::DataType as std::cmp::PartialEq>::ne", "<types::DataTypeRef<'_> as std::cmp::PartialEq>::ne"}
        feq = p.fns.get("<types::DataType as std::cmp::PartialEq>::eq")
        lossy = bool(feq) and any(c.callee.endswith("::to_f64") for c in feq.calls())
        scope = {x for x in p.reach_forward([avw]) if x.startswith("storage::tuple") or x.startswith("<storage::tuple")}
        users = sorted(g for g in scope if g in p.fns and any(c.callee in EQS for c in p.fns[g].calls()))
        if not lossy:
            cx.ok(r7, "no-lossy-equality-in-update", fav.where(), "DataType equality is exact: value comparisons in the update path are harmless")
        else:
            cx.verdict(not users, r7, "no-lossy-equality-in-update", fav.where(), "no value equality in the version-writing path (%d functions)" % len(scope),
                       "%s compares values with `==` while building a new row version: distinct BIGINTs above 2^53 (or 0.0 / -0.0) compare equal, "
                       "so the assignment is dropped and every later reader decodes the old value" % ", ".join(users))

    # ---- C18.8 (construct shared with C04.8) -------------------------------------------------------------------------
    cx.include(c04, {"C04.8"}, "C18.8", "shared with C04.8: decision tables of Snapshot::is_committed_before_snapshot and is_transaction_aborted - "
               "which version a reader decodes is decided by them", floor=2)
