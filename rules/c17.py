"""C17 — the write-ahead log returns exactly what was appended (partly claimed)."""
from axvlib import core
from axvlib.core import AnchorMissing, op_local, op_const, enum_switches, dominated
from . import common as K
from . import c01

EXPLANATION = (
    "Decides the structural conditions of log integrity: the force writes queued blocks, current block and header and "
    "syncs, placement and the persisted block count continue from the blocks already on disk (shared with C01.3/4), "
    "the on-disk block counter is restored on open from the persisted header and reset by truncate together with every "
    "other piece of in-memory log state, block zero takes records only while it is the last block (append order = read "
    "order), the record-size check dominates both placements in push, the field the next LSN is derived from is "
    "advanced on every success path of push, only the pager appends/forces, the reader bounds its scan by the header it "
    "read and by the persisted block count, and the size constants are mutually consistent.")
NOT_DECIDED = "equality of payload bytes; behaviour under torn block writes"
ASSUMPTIONS = ["a log block is written whole"]

WAL = K.WAL
WH = "storage::wal::WalHeader"


def fields_written(f, adt):
    out = set()
    for b in f.blocks:
        for s in b["stmts"]:
            for pe in s["dst"][1:]:
                if isinstance(pe, str) and pe.endswith(":" + adt):
                    out.add(pe[1:].split(":")[0])
            if s["rv"].get("r") in ("ref", "rawptr") and s["rv"].get("mut"):
                pl = s["rv"]["p"]
                if pl[1:] and isinstance(pl[-1], str) and pl[-1].endswith(":" + adt):
                    out.add("&mut " + pl[-1][1:].split(":")[0])
    return out


def check(cx):
    p = cx.p
    # ---- C17.1 shared with C01 ------------------------------------------------------------------
    r1 = cx.rule("C17.1", "shared with C01.3/C01.4/C01.7: the force is a force, placement and block count continue from "
                 "what is on disk, only the pager appends/forces (evaluated by the C01 module on the same facts)", floor=1)
    sub = type(cx)(cx.prop, cx.tier, cx.p, cx.progs)
    sub.nested = True
    if not getattr(cx, "nested", False):
        c01.check(sub)
    for o in sub.obl:
        if o["rule"] in ("C01.3", "C01.4", "C01.7"):
            key = o["key"].replace("C01.", "from-C01.")
            if o["status"] == "ok":
                cx.ok(r1, key, o["where"], o["detail"])
            elif o["status"] == "violation":
                cx.bad(r1, key, o["where"], o["detail"])

    # ---- C17.2 on-disk block counter lifecycle ----------------------------------------------------
    r2 = cx.rule("C17.2", "FLOW: WriteAheadLog::open restores the number of blocks on disk from the persisted header "
                 "(total_blocks); create starts at 1; truncate resets header, current block, flush queue and the block "
                 "counter (every field but file/block_size)", floor=3)
    def const_through_copies(f_, o, depth=0):
        """the constant an operand is, through copies (the parameter of an inlined constructor is a copy of the argument)"""
        k_ = op_const(o)
        if k_ is not None:
            return k_
        lo = op_local(o)
        if lo is None or depth > 5:
            return None
        defs = [st for b_ in f_.blocks for st in b_["stmts"] if st["dst"] == [lo]]
        if len(defs) == 1 and defs[0]["rv"].get("r") in ("use", "cast") and defs[0]["rv"].get("o"):
            return const_through_copies(f_, defs[0]["rv"]["o"][0], depth + 1)
        return None
    fo = cx.guard(r2, "open", p.method, WAL, "open", "io::disk::FileOperations")
    if fo:
        good = False
        why = "flushed_blocks not initialised from the header"
        for _, s in core.region_aggregates(fo, range(len(fo.blocks)), WAL):
            rv = s["rv"]
            if "flushed_blocks" not in rv["fields"]:
                why = "WriteAheadLog has no flushed_blocks field"
                continue
            o = rv["o"][rv["fields"].index("flushed_blocks")]
            l = op_local(o)
            k = const_through_copies(fo, o)
            if k is not None:
                continue   # the short-log branch starts at the constant 1, fine
            cl = fo.dep_closure(l)
            reads_tb = any(any(isinstance(pe, str) and pe.startswith(".total_blocks:") for pe in (oo.get("c") or oo.get("m") or [])[1:])
                           for b in fo.blocks for st in b["stmts"] if st["dst"][0] in cl
                           for oo in (st["rv"].get("o") or []) if isinstance(st["rv"].get("o"), list))
            good = reads_tb
            why = "flushed_blocks = header.total_blocks (max 1)" if good else "flushed_blocks does not derive from the persisted total_blocks"
        cx.verdict(good, r2, "open:restores-block-count", fo.where(), why,
                   "WriteAheadLog::open: %s — after a reopen the next force overwrites blocks that are already on disk" % why)
    fc = cx.guard(r2, "create", p.method, WAL, "create", "io::disk::FileOperations")
    if fc:
        okc = False
        for _, s in core.region_aggregates(fc, range(len(fc.blocks)), WAL):
            rv = s["rv"]
            if "flushed_blocks" in rv["fields"]:
                o_ = rv["o"][rv["fields"].index("flushed_blocks")]
                k = const_through_copies(fc, o_)
                okc = k is not None and k.get("v") == 1
                if not okc and op_local(o_) is not None:
                    # a constructor shared with open(): `header.total_blocks.max(1)` of the freshly allocated header
                    mx = [c for c in fc.calls() if c.dst and c.dst[0] in (fc.provenance_locals(op_local(o_)) | {op_local(o_)})
                          and c.callee.rsplit("::", 1)[-1] == "max" and any((op_const(a) or {}).get("v") == 1 for a in c.args)]
                    fresh = any(c.callee.endswith("::alloc") or c.callee.endswith("BlockZero::new") for c in fc.calls())
                    okc = bool(mx) and fresh
        cx.verdict(okc, r2, "create:starts-at-1", fc.where(), "flushed_blocks = 1", "a fresh log does not start with one block (block zero)")
    ft = cx.guard(r2, "truncate", p.method, WAL, "truncate", "io::disk::FileOperations")
    if ft:
        wr = fields_written(ft, WAL)
        adt = p.adts.get(WAL, {"variants": [{"fields": []}]})
        allf = {x["n"] for x in adt["variants"][0]["fields"]} - {"file", "block_size"}
        # a field counts as reset when assigned, or when a &mut of it is handed to clear()/take()
        reset = {x for x in wr if not x.startswith("&mut ")}
        for b in ft.blocks:
            t = b["term"]
            if t["t"] == "call" and t["fn"].get("res", "").rsplit("::", 1)[-1] in ("clear", "take", "truncate"):
                l = op_local(t["args"][0]) if t["args"] else None
                for bb in ft.blocks:
                    for s in bb["stmts"]:
                        if s["dst"] == [l] and s["rv"].get("r") == "ref":
                            pl = s["rv"]["p"]
                            if pl[1:] and isinstance(pl[-1], str) and pl[-1].endswith(":" + WAL):
                                reset.add(pl[-1][1:].split(":")[0])
        missing = allf - reset
        cx.verdict(not missing, r2, "truncate:resets-all-state", ft.where(), "resets %s" % sorted(reset & allf),
                   "WriteAheadLog::truncate leaves %s untouched: blocks queued (or counted) before the truncation reappear "
                   "in / misplace the next force" % sorted(missing))

    # ---- C17.3 push ----------------------------------------------------------------------------------------
    r3 = cx.rule("C17.3", "MPR/MPT: in push the max-record-size check dominates both placements (block zero, current "
                 "block); global_last_lsn (the LSN source read by last_lsn) is written on every success path; block zero "
                 "is chosen only under a test of the on-disk block count and of the flush queue", floor=4)
    fp = cx.guard(r3, "push", p.fn, WAL + "::push")
    if fp:
        tp = [c for c in fp.calls() if c.callee.endswith("::try_push")]
        mrs = [c for c in fp.calls() if c.callee == WAL + "::max_record_size"]
        good = len(tp) >= 2 and bool(mrs) and all(any(fp.dominates(m.bb, t.bb) for m in mrs) for t in tp)
        # the too-large arm returns Err: some err-block/Err aggregate dominated by the comparison
        cx.verdict(good, r3, "size-check-dominates", fp.where(), "%d placements, all dominated by the size check" % len(tp),
                   "a record is placed without the size check (a record larger than a block corrupts the block)")
        stores = [bi for bi, b in enumerate(fp.blocks) for s in b["stmts"]
                  if any(isinstance(pe, str) and pe.startswith(".global_last_lsn:") for pe in s["dst"][1:])]
        good = bool(stores) and not fp.success_returns_from(0, blocked=set(stores))
        cx.verdict(good, r3, "lsn-source-advanced", fp.where(), "global_last_lsn stored on every success path",
                   "push has a success path that does not advance global_last_lsn: later records reuse an LSN (D25)")
        # block-zero placement: the header try_push must be control-dependent on flushed_blocks and flush_queue
        hdr_push = [t for t in tp if any(isinstance(pe, str) and pe.startswith(".header:") for s in fp.blocks[t.bb]["stmts"] for pe in (s["rv"].get("p") or [])[1:])
                    or any(s["dst"][0] == op_local(t.args[0]) and any(isinstance(pe, str) and pe.startswith(".header:") for pe in (s["rv"].get("p") or [])[1:])
                           for b in fp.blocks for s in b["stmts"])]
        guards_fb, guards_fq = False, False
        for t in hdr_push:
            for bi, b in enumerate(fp.blocks):
                tt = b["term"]
                if tt["t"] == "switch" and fp.dominates(bi, t.bb) and bi != t.bb:
                    l = op_local(tt["o"])
                    cl = fp.dep_closure(l) | {l}
                    for bb in fp.blocks:
                        for s in bb["stmts"]:
                            if s["dst"][0] in cl:
                                for o in (s["rv"].get("o") or []) if isinstance(s["rv"].get("o"), list) else []:
                                    pl = o.get("c") or o.get("m") or []
                                    if any(isinstance(pe, str) and pe.startswith(".flushed_blocks:") for pe in pl[1:]):
                                        guards_fb = True
                                pl = s["rv"].get("p") or []
                                if any(isinstance(pe, str) and pe.startswith(".flush_queue:") for pe in pl[1:]):
                                    guards_fq = True
                    for c in fp.calls():
                        if op_local({"c": c.dst}) in cl and c.callee.endswith("::is_empty"):
                            al = op_local(c.args[0])
                            for bb in fp.blocks:
                                for s in bb["stmts"]:
                                    if s["dst"] == [al] and any(isinstance(pe, str) and pe.startswith(".flush_queue:") for pe in (s["rv"].get("p") or [])[1:]):
                                        guards_fq = True
        # ... and only while no data block is open: a record that opened the first data block must not be followed by a
        # smaller one going back into block zero
        guards_cb = False
        for t in hdr_push:
            for c in fp.calls():
                if not (c.callee.endswith("Option::<T>::is_none") or c.callee.endswith("Option::<T>::is_some")) or c.term["to"] is None:
                    continue
                al = op_local(c.args[0])
                on_cb = any(s_["dst"] == [al] and any(isinstance(pe, str) and pe.startswith(".current_block:") for pe in (s_["rv"].get("p") or [])[1:])
                            for bb in fp.blocks for s_ in bb["stmts"])
                tb = fp.blocks[c.term["to"]]["term"]
                if on_cb and tb["t"] == "switch" and op_local(tb["o"]) == c.dst[0] and fp.dominates(c.term["to"], t.bb):
                    # the placement must sit on the arm where the test says "no current block"
                    none_val = 1 if c.callee.endswith("is_none") else 0
                    arm = tb["otherwise"] if none_val == 1 else [tg for v, tg in tb["targets"] if v == 0][0]
                    if fp.dominates(arm, t.bb):
                        guards_cb = True
            for bi, adt, m, oth, src in enum_switches(p, fp):
                if adt == "std::option::Option" and any(isinstance(pe, str) and pe.startswith(".current_block:") for pe in src[1:]) and "None" in m \
                        and fp.dominates(m["None"], t.bb):
                    guards_cb = True
        cx.verdict(bool(hdr_push) and guards_cb, r3, "block-zero-only-without-open-block", fp.where(),
                   "block-zero placement only while current_block is None",
                   "push can place a record in block zero although a data block is already open: a small record appended after a "
                   "larger one that opened the first data block is read back before it")
        cx.verdict(bool(hdr_push) and guards_fb and guards_fq, r3, "block-zero-only-while-last", fp.where(),
                   "block-zero placement guarded by flushed_blocks and flush_queue",
                   "push places a record in block zero without testing whether later blocks exist: records are read back "
                   "out of order and a COMMIT can precede its BEGIN (D32)")
    fl = cx.guard(r3, "last_lsn", p.fn, WAL + "::last_lsn")
    if fl:
        reads = any(any(isinstance(pe, str) and pe.startswith(".global_last_lsn:") for pe in (o.get("c") or o.get("m") or [])[1:])
                    for b in fl.blocks for s in b["stmts"] for o in (s["rv"].get("o") or []) if isinstance(s["rv"].get("o"), list))
        cx.verdict(reads, r3, "last_lsn-reads-global", fl.where(), "last_lsn() = wal_header.global_last_lsn",
                   "last_lsn() no longer reads the log-wide last LSN (block zero's is only advanced while records fit there, D25)")
    f2 = cx.guard(r3, "push_to_log", p.fn, K.PUSH_TO_LOG)
    if f2:
        ll = [c for c in f2.calls() if c.callee == WAL + "::last_lsn"]
        into = [c for c in f2.calls() if c.callee.endswith("Operation::into_record") or c.callee.endswith("::into_record")]
        good = bool(ll) and bool(into) and all(any(op_local({"c": l.dst}) in f2.dep_closure(op_local(i.args[1])) for l in ll) for i in into)
        cx.verdict(good, r3, "next-lsn-from-last_lsn", f2.where(), "record LSN derives from last_lsn()",
                   "push_to_log does not derive the new record's LSN from last_lsn()")

    # ---- C17.4 layout constants -----------------------------------------------------------------------------
    r4 = cx.rule("C17.4", "CONST: WAL_BLOCK_SIZE within [MIN, MAX], a multiple of the record alignment and small enough "
                 "for the u16/u32 size fields; header sizes are multiples of the record alignment", floor=3)
    try:
        bs, mn, mx = p.const("storage::wal::WAL_BLOCK_SIZE"), p.const("storage::wal::MIN_WAL_BLOCK_SIZE"), p.const("storage::wal::MAX_WAL_BLOCK_SIZE")
        al = p.const("storage::wal::WAL_RECORD_ALIGNMENT")
        rh, bh = p.const("storage::wal::RECORD_HEADER_SIZE"), p.const("storage::wal::BLOCK_HEADER_SIZE")
        cx.verdict(mn <= bs <= mx, r4, "block-size-range", "", "%d <= %d <= %d" % (mn, bs, mx), "WAL_BLOCK_SIZE outside [MIN, MAX]")
        cx.verdict(bs % al == 0 and rh % al == 0 and bh % al == 0, r4, "alignment", "", "block and header sizes are multiples of %d" % al,
                   "a WAL size constant is not a multiple of WAL_RECORD_ALIGNMENT: records would straddle the alignment the reader assumes")
        cx.verdict(rh + al <= bs - bh, r4, "record-fits", "", "a minimal record fits a block", "no record fits a block")
    except AnchorMissing as e:
        cx.bad(r4, "anchor-missing", "", str(e))

    # ---- C17.5 reader bounds ----------------------------------------------------------------------------------
    r5 = cx.rule("C17.5", "FLOW: the reader never reads beyond total_blocks * block_size, takes total_blocks from the "
                 "persisted header at both construction sites, and bounds each block scan by that block's used_bytes", floor=3)
    for site in (WAL + "::run_analysis", WAL + "::reader"):
        f = cx.guard(r5, site, p.fn, site)
        if not f:
            continue
        news = [c for c in f.calls() if c.callee.endswith("WalReader::<'a>::new") or c.callee.endswith("WalReader::new")]
        good = bool(news)
        if not news and site != WAL + "::reader" and any(c.callee == WAL + "::reader" for c in f.calls()):
            # the analysis obtains its reader from WriteAheadLog::reader, which is judged on its own
            cx.ok(r5, site.rsplit("::", 1)[-1] + ":total_blocks-from-header", f.where(), "reader obtained from WriteAheadLog::reader")
            continue
        for c in news:
            l = op_local(c.args[3])
            cl = f.dep_closure(l) | {l}
            good = good and any(any(isinstance(pe, str) and pe.startswith(".total_blocks:") for pe in (o.get("c") or o.get("m") or [])[1:])
                                for b in f.blocks for s in b["stmts"] if s["dst"][0] in cl
                                for o in (s["rv"].get("o") or []) if isinstance(s["rv"].get("o"), list))
        cx.verdict(good, r5, site.rsplit("::", 1)[-1] + ":total_blocks-from-header", f.where(), "reader bound = header.total_blocks",
                   "the reader is built with a block count that does not come from the persisted header")
    fr = cx.guard(r5, "reload_blocks", p.find_fns, r"WalReader.*::reload_blocks$")
    if fr:
        fr = fr[0]
        cmps = [s for b in fr.blocks for s in b["stmts"] if s["rv"].get("r") == "bin" and s["rv"]["op"] in ("Ge", "Gt", "Lt", "Le")]
        rd = [c for c in fr.calls() if c.callee.endswith("::read_exact")]
        good = bool(cmps) and bool(rd) and all(any(fr.dominates(bi, r.bb) for bi, b in enumerate(fr.blocks)
                                                   if b["term"]["t"] == "switch") for r in rd)
        cx.verdict(good, r5, "reload-bounded", fr.where(), "block reads guarded by file_offset >= total_blocks*block_size",
                   "reload_blocks reads a block without comparing the offset with the persisted end of the log")
    fn_ = cx.guard(r5, "next_ref", p.find_fns, r"WalReader.*::next_ref$")
    if fn_:
        fn_ = fn_[0]
        ub = any(any(isinstance(pe, str) and pe.startswith(".used_bytes:") for pe in (o.get("c") or o.get("m") or [])[1:])
                 for b in fn_.blocks for s in b["stmts"] for o in (s["rv"].get("o") or []) if isinstance(s["rv"].get("o"), list))
        hub = any(c.callee.endswith("::header_used_bytes") for c in fn_.calls())
        cx.verdict(ub and hub, r5, "scan-bounded-by-used_bytes", fn_.where(), "both block kinds are scanned up to used_bytes",
                   "next_ref no longer bounds the scan of a block by its used_bytes")

    # ---- C17.6 the reader ends only when the file has no more blocks; dropping the log forces it --------------------------------
    r6 = cx.rule("C17.6", "MPR/MPT: every `Ok(None)` (end of log) returned by WalReader::next_ref is dominated by a call of reload_blocks (an empty "
                 "block zero does not mean an empty log: a first record too large for block zero goes to block one); Drop for "
                 "WriteAheadLog reaches flush on every path (block zero is itself a buffer)", floor=3)
    fn2 = p.find_fns(r"WalReader.*::next_ref$")
    if not fn2:
        cx.bad(r6, "next_ref:anchor-missing", "", "WalReader::next_ref not found")
    else:
        g = fn2[0]
        rl = [c for c in g.calls() if c.callee.endswith("::reload_blocks")]
        ends = []
        for bi, b in enumerate(g.blocks):
            for st in b["stmts"]:
                if st["rv"].get("r") == "agg" and st["rv"].get("adt") == "std::option::Option" and st["rv"].get("variant") == "None" and len(st["dst"]) == 1:
                    # does it flow into the returned Ok(..)?
                    tgt = st["dst"][0]
                    if any(s2["dst"] == [0] and s2["rv"].get("r") == "agg" and any(op_local(o) == tgt for o in s2["rv"]["o"])
                           for b2 in g.blocks for s2 in b2["stmts"]):
                        ends.append(bi)
        if not ends or not rl:
            cx.bad(r6, "next_ref:end-of-log", g.where(), "next_ref has no end-of-log return or no reload_blocks call")
        for i, e in enumerate(sorted(ends)):
            cx.verdict(any(g.dominates(c.bb, e) for c in rl), r6, "next_ref:end-of-log#%d" % i, g.where(), "dominated by reload_blocks",
                       "WalReader::next_ref can report the end of the log without having asked the file for more blocks (e.g. because block "
                       "zero is empty): every record of a log whose first record went to block one is invisible, also to recovery's analysis")
    fdrop = p.fns.get("<io::wal::WriteAheadLog as std::ops::Drop>::drop")
    if fdrop is None:
        cx.bad(r6, "drop-forces", "", "impl Drop for WriteAheadLog not found")
    else:
        fl = {c.bb for c in fdrop.calls() if c.callee.endswith("::flush") or c.callee.endswith("perform_flush")}
        rets = [bi for bi, b in enumerate(fdrop.blocks) if b["term"]["t"] == "ret"]
        free = fdrop.reachable(0, blocked=fl) & set(rets)
        cx.verdict(bool(fl) and not free, r6, "drop-forces", fdrop.where(), "flush on every path of drop",
                   "Drop for WriteAheadLog can return without forcing the log: records appended to block zero since the last force are lost "
                   "on a close that nobody forced explicitly")

    # ---- C17.7 reopening keeps block zero ------------------------------------------------------------------------------------
    r7 = cx.rule("C17.7", "FLOW: block zero is the log's first data block as well as its header: the handle WriteAheadLog::open returns "
                 "after reading block zero from the file keeps that very buffer as its `header` (never a fresh block with some fields "
                 "copied over) - otherwise the next force rewrites block zero without the records it held", floor=1)
    fo7 = cx.guard(r7, "open", p.method, WAL, "open", "io::disk::FileOperations")
    if fo7:
        reads = [c for c in fo7.calls() if c.callee.endswith("::read_exact") and len(c.args) > 1 and op_local(c.args[1]) is not None]
        bufs = set()
        for c in reads:
            ls = fo7.provenance_locals(op_local(c.args[1])) | {op_local(c.args[1])}
            for _ in range(3):
                more = set()
                for x in fo7.calls():
                    if x.dst and x.dst[0] in ls and x.callee.rsplit("::", 1)[-1] in ("as_mut", "as_mut_slice", "deref_mut", "borrow_mut") and x.args and op_local(x.args[0]) is not None:
                        more |= fo7.provenance_locals(op_local(x.args[0])) | {op_local(x.args[0])}
                ls |= more
            bufs |= ls
        after = set()
        for c in reads:
            after |= fo7.reachable(c.bb)
        aggs = [(bi, st) for bi, b in enumerate(fo7.blocks) if bi in after and not b.get("cleanup") for st in b["stmts"]
                if st["rv"].get("r") == "agg" and st["rv"].get("adt") == WAL and "header" in (st["rv"].get("fields") or [])]
        good = bool(reads) and bool(aggs)
        for bi, st in aggs:
            o = st["rv"]["o"][st["rv"]["fields"].index("header")]
            h = op_local(o)
            good = good and h is not None and bool((fo7.provenance_locals(h) | {h}) & bufs)
        cx.verdict(good, r7, "header-is-the-block-read", fo7.where(), "the returned handle's header is the buffer block zero was read into",
                   "WriteAheadLog::open builds its header from something other than the block it read from the file: the records stored in "
                   "block zero are gone from memory, and the next force (or Drop) overwrites them on disk")
