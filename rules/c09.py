"""C09 — clean close and reopen preserves everything (partly claimed)."""
from axvlib import core
from axvlib.core import AnchorMissing, op_local, op_const, enum_switches, dominated
from . import common as K

EXPLANATION = (
    "Decides that a clean close persists all header-resident state and that configuration survives: Drop for Database "
    "exists in the default configuration and reaches the checkpoint, the checkpoint writes back every dirty page and "
    "the whole in-memory header (all counters, free list, aborted bitmap) before discarding the log, header counters "
    "are written only by their setters, the id counters (transaction, object) are only ever incremented from their "
    "current value, the cache capacity is configuration (written only by its setter), the aborted bitmap records every "
    "id it can and its bound check is strict against SIZE*8, every abort path reaches the bitmap, and INSERT persists "
    "the next row id. Thorough tier also analyses --features no-flush (Drop impl must be absent there, by design).")
NOT_DECIDED = "byte-for-byte equality of contents after many close/open cycles"
ASSUMPTIONS = []
# obligations whose verdict legitimately differs under a feature (evaluated there by C09.6 instead)
CONFIG_DEPENDENT = {"no-flush": ["C09.1:drop-impl", "C09.1:drop-reaches-checkpoint", "C09.1:floor"]}

HDR = "storage::page::PageZeroHeader"
CACHE = "io::cache::PageCache"


def field_writers(p, adt):
    import collections
    w = collections.defaultdict(set)
    for f in p.fns.values():
        for b in f.blocks:
            for s in b["stmts"]:
                for pe in s["dst"][1:]:
                    if isinstance(pe, str) and pe.endswith(":" + adt):
                        w[pe[1:].split(":")[0]].add(f.id)
                if s["rv"].get("r") in ("ref", "rawptr") and s["rv"].get("mut"):
                    pl = s["rv"]["p"]
                    if pl[1:] and isinstance(pl[-1], str) and pl[-1].endswith(":" + adt):
                        w[pl[-1][1:].split(":")[0]].add(f.id)
    return w


def check(cx):
    p = cx.p
    # ---- C09.1 drop -> checkpoint -> everything written ------------------------------------------
    r1 = cx.rule("C09.1", "TYPE/MPT: impl Drop for Database exists (default features) and reaches Pager::flush; "
                 "Pager::flush forces the log, writes every dirty page, writes the whole in-memory header "
                 "(sync_header stores *header_unchecked()), then truncates the log", floor=4)
    imp = p.impl_of("std::ops::Drop", "Database")
    cx.verdict(imp is not None, r1, "drop-impl", "", "impl Drop for Database present",
               "impl Drop for Database is missing in the default configuration: a clean close no longer checkpoints")
    if imp:
        d = "<Database as std::ops::Drop>::drop"
        cx.verdict(p.reaches(d, K.PAGER_FLUSH), r1, "drop-reaches-checkpoint", "", "drop -> flush -> Pager::flush",
                   "Drop for Database no longer reaches the checkpoint")
    f = cx.guard(r1, "Database::flush", p.fn, "Database::flush")
    if f:
        T = p.must_reach_set({K.PAGER_FLUSH})
        cx.verdict(p.all_success_paths_call(f, T, 0), r1, "flush-checkpoints", f.where(),
                   "Database::flush checkpoints on every success path", "Database::flush can succeed without a checkpoint")
    fp = cx.guard(r1, "Pager::flush", p.fn, K.PAGER_FLUSH)
    if fp:
        sh = K.PAGER + "::sync_header"
        cx.verdict(p.all_success_paths_call(fp, {sh}, 0), r1, "checkpoint-writes-header", fp.where(),
                   "sync_header on every success path", "the checkpoint can succeed without writing the header")
    fs = cx.guard(r1, "sync_header", p.fn, K.PAGER + "::sync_header")
    if fs:
        # *zero_from_disk.metadata_mut() = *self.header_unchecked();  then write_block(PAGE_ZERO, ..)
        hu = [c for c in fs.calls() if c.callee == K.PAGER + "::header_unchecked"]
        mm = [c for c in fs.calls() if c.callee.endswith("::metadata_mut")]
        wb = [c for c in fs.calls() if c.callee == K.PAGER + "::write_block"]
        whole = False
        for b in fs.blocks:
            for s in b["stmts"]:
                # store through the metadata_mut pointer of a value loaded through the header_unchecked pointer
                if len(s["dst"]) == 2 and s["dst"][1] == "*" and any(op_local({"c": c.dst}) == s["dst"][0] for c in mm):
                    src = s["rv"].get("o", [{}])[0]
                    pl = src.get("c") or src.get("m") or []
                    if len(pl) == 1:   # through a temporary: tmp = copy (*header_ptr)
                        for b2 in fs.blocks:
                            for s2 in b2["stmts"]:
                                if s2["dst"] == pl and s2["rv"].get("r") == "use":
                                    o2 = s2["rv"]["o"][0]
                                    pl = o2.get("c") or o2.get("m") or pl
                    if len(pl) == 2 and pl[1] == "*" and any(op_local({"c": c.dst}) == pl[0] for c in hu):
                        whole = True
        good = whole and bool(wb) and all(any(fs.dominates(m.bb, w.bb) for m in mm) for w in wb)
        k = op_const(wb[0].args[1]) if wb else None
        cx.verdict(good, r1, "header-copied-whole", fs.where(), "the whole header struct is copied and written to page zero",
                   "sync_header no longer copies the whole in-memory header before writing page zero: some counter "
                   "(transaction ids, object ids, free list, aborted bitmap) is not persisted")

    # ---- C09.2 header counters written by their setters only ------------------------------------------
    r2 = cx.rule("C09.2", "WMC: each PageZeroHeader field is written only by its setter/owner function", floor=9)
    OWN = {
        "first_free_page": {K.PAGER + "::set_first_free_page"},
        "last_free_page": {K.PAGER + "::set_last_free_page"},
        "total_pages": {K.PAGER + "::get_next_page"},
        "last_created_transaction": {K.PAGER + "::set_last_created_transaction"},
        "last_committed_transaction": {K.PAGER + "::set_last_committed_transaction"},
        "last_stored_object": {K.PAGER + "::set_last_stored_object"},
        "aborted_txs_bitmap": {HDR + "::mark_transaction_aborted", HDR + "::clear_aborted_up_to", HDR + "::clear_aborted_bitmap"},
        "page_size": {K.PAGER + "::alloc_page_zero"}, "min_keys": {K.PAGER + "::alloc_page_zero"},
        "cache_size": {K.PAGER + "::alloc_page_zero"}, "num_siblings_per_side": {K.PAGER + "::alloc_page_zero"},
    }
    w = field_writers(p, HDR)
    if p.inline_mode:
        # a small helper that does the stores for its only callers (`store_config(&mut header, &config)`) is judged through them
        def through(x, owners, depth=0):
            if x in owners or depth > 3 or not p.transparent(x):
                return {x}
            out_ = set()
            for c_ in p.effective_callers(x, owners):
                out_ |= through(p.raw_fns[c_].root or c_ if c_ in p.raw_fns else c_, owners, depth + 1)
            return out_ or {x}
        w = {fld: set().union(*[through(x, OWN.get(fld, set())) for x in ws_]) if ws_ else set() for fld, ws_ in w.items()}
    for fld, owners in OWN.items():
        ws = w.get(fld, set())
        cx.verdict(bool(ws) and ws <= owners, r2, fld, "", "written by %s" % sorted(ws),
                   "header field %s is written by %s (expected only %s)" % (fld, sorted(ws - owners) or "nobody", sorted(owners)))
    for fld in set(w) - set(OWN):
        cx.bad(r2, "unlisted:" + fld, "", "header field %s is written by %s but has no owner in the table" % (fld, sorted(w[fld])))

    # ---- C09.2b id counters only move forward -----------------------------------------------------------
    r2b = cx.rule("C09.2b", "FLOW: the transaction-id and object-id counters are stored only as (current value + 1) "
                  "read in the same critical section (ids never collide or repeat after reopen)", floor=2)
    for setter, getter, owner in ((K.PAGER + "::set_last_created_transaction", K.PAGER + "::get_last_created_transaction", K.COORD + "::begin"),
                                  (K.PAGER + "::set_last_stored_object", K.PAGER + "::get_last_stored_object", "schema::catalog::Catalog::get_next_object_id")):
        cs = K.sites(p, setter)
        if not cs:
            cx.bad(r2b, "no-store:" + setter, "", "%s is never called" % setter)
        for c in cs:
            f = c.fn
            l = op_local(c.args[1])
            cl = f.dep_closure(l) if l is not None else set()
            from_get = [g for g in f.calls() if g.callee == getter and op_local({"c": g.dst}) in cl and f.dominates(g.bb, c.bb)]
            adds = [s for b in f.blocks for s in b["stmts"] if s["dst"][0] in cl and s["rv"].get("r") == "bin"
                    and s["rv"]["op"] in ("Add", "AddWithOverflow") and any((op_const(o) or {}).get("v") == 1 for o in s["rv"]["o"])]
            # one critical section: a write guard acquired before the read is still held at the store
            from axvlib import locks as _locks
            if not hasattr(cx, "_lockfacts"):
                cx._lockfacts = _locks.LockFacts(p)
            held = cx._lockfacts.held(f)
            same_guard = any(any(m == "w" for g_, (cl_, m) in held.get(c.bb, {}).items() if g_ in held.get(g.bb, {}))
                             for g in from_get)
            cx.verdict(f.id == owner and bool(from_get) and bool(adds) and same_guard, r2b, "%s@%s" % (setter.rsplit("::", 1)[-1], f.id), c.where(),
                       "stores getter()+1 under the write guard it was read under",
                       "%s stores a value that is not current+1 read under the same write guard (in %s; read in the same function: %s, "
                       "same guard: %s): two concurrent callers can obtain the same id" % (setter, f.id, bool(from_get), same_guard))

    # ---- C09.3 cache capacity is configuration ------------------------------------------------------------
    r3 = cx.rule("C09.3", "WMC: PageCache.capacity is written only by its constructors/setter (a checkpoint or clear() "
                 "must not change it), and the value handed to the setter is never widened from a narrower persisted field", floor=2)
    wc = field_writers(p, CACHE).get("capacity", set())
    okset = {CACHE + "::set_capacity"}
    for x in sorted(wc):
        cx.verdict(x in okset, r3, "writer:" + x, p.where_of(x), "capacity written by its setter",
                   "%s writes PageCache.capacity: after it the cache refuses or mis-sizes every insertion (D6)" % x)
    if not wc:
        cx.bad(r3, "no-writer", "", "PageCache.capacity has no writer at all")

    # the capacity handed to the setter is a full-width value: never a widened copy of a narrower (persisted) field —
    # the header keeps the cache size in a u16, which silently wraps for sizes >= 65536
    WIDTH = {"u8": 8, "u16": 16, "u32": 32, "u64": 64, "usize": 64, "i8": 8, "i16": 16, "i32": 32, "i64": 64, "isize": 64}
    sc_sites = [c for c in K.sites(p, CACHE + "::set_capacity") if c.callee == CACHE + "::set_capacity"]
    if not sc_sites:
        cx.bad(r3, "set_capacity:no-call", "", "PageCache::set_capacity is never called")
    for c in sc_sites:
        g = c.fn
        l = op_local(c.args[1]) if len(c.args) > 1 else None
        narrow = []
        seen_l = set()
        work = [l]
        while work:
            x = work.pop()
            if x is None or x in seen_l:
                continue
            seen_l.add(x)
            for b in g.blocks:
                for st in b["stmts"]:
                    if st["dst"] != [x]:
                        continue
                    rv = st["rv"]
                    if rv.get("r") in ("use", "cast"):
                        o = rv["o"][0]
                        pl = o.get("c") or o.get("m")
                        if pl:
                            if rv.get("r") == "cast" and rv.get("kind") == "IntToInt":
                                sty = core.place_type(p, g, pl)
                                if sty in WIDTH and WIDTH[sty] < WIDTH.get(rv.get("to"), 64):
                                    narrow.append("%s -> %s" % (sty, rv.get("to")))
                            work.append(pl[0])
        cx.verdict(not narrow, r3, "set_capacity-arg@" + (g.root or g.id), c.where(), "capacity is a full-width configuration value",
                   "%s sizes the cache from a value widened from a narrower integer (%s): the persisted cache size is a "
                   "truncated copy, a database created with cache_size >= 65536 reopens with `size mod 65536` frames "
                   "(0 frames: every statement fails)" % (g.id, ", ".join(narrow)))

    # ---- C09.4 the aborted bitmap ----------------------------------------------------------------------------
    r4 = cx.rule("C09.4", "FLOW/CONST: every bitmap accessor guards its index with a strict `txid < MAX_TRACKED_ABORTED_TXS` "
                 "and MAX = ABORTED_BITMAP_SIZE * 8; ids beyond the bitmap are a known finding (silently dropped)", floor=3)
    size = cx.guard(r4, "ABORTED_BITMAP_SIZE", p.const, "storage::page::ABORTED_BITMAP_SIZE")
    mx = cx.guard(r4, "MAX_TRACKED_ABORTED_TXS", p.const, "storage::page::MAX_TRACKED_ABORTED_TXS")
    if size and mx:
        cx.verdict(mx == size * 8, r4, "const-relation", "", "%d == %d * 8" % (mx, size), "MAX_TRACKED_ABORTED_TXS != ABORTED_BITMAP_SIZE * 8")
    for name in ("mark_transaction_aborted", "is_transaction_aborted"):
        f = cx.guard(r4, name, p.fn, HDR + "::" + name)
        if not f or not mx:
            continue
        def is_max(o, depth=0):
            """the operand is the constant MAX_TRACKED_ABORTED_TXS itself (possibly copied / cast into a local) - not a value
            computed from it (`id % MAX`, an index)"""
            k = op_const(o) or {}
            if k:
                return k.get("v") == mx or str(k.get("cdef", "")).endswith("MAX_TRACKED_ABORTED_TXS")
            l = op_local(o)
            if l is None or depth > 4:
                return False
            defs = [st for b_ in f.blocks for st in b_["stmts"] if st["dst"] == [l]]
            return len(defs) == 1 and defs[0]["rv"].get("r") in ("use", "cast") and is_max(defs[0]["rv"]["o"][0], depth + 1)
        cmps = [s for b in f.blocks for s in b["stmts"] if s["rv"].get("r") == "bin" and s["rv"]["op"] in ("Lt", "Le", "Gt", "Ge")
                and any(is_max(o) for o in s["rv"]["o"])]
        good = bool(cmps)
        why = []
        for s in cmps:
            a, b2 = s["rv"]["o"]
            a_is_txid = op_local(a) is not None and (op_local(a) == 2 or 2 in f.dep_closure(op_local(a)))
            op = s["rv"]["op"]
            strict = (op == "Lt" and a_is_txid) or (op == "Ge" and a_is_txid) or (op == "Gt" and not a_is_txid) or (op == "Le" and not a_is_txid)
            why.append("%s(%s)" % (op, "txid, MAX" if a_is_txid else "MAX, txid"))
            good = good and strict
        cx.verdict(good, r4, name + ":strict-bound", f.where(), "guard %s" % why,
                   "%s guards its bitmap index with %s: id == MAX_TRACKED_ABORTED_TXS indexes one byte past the bitmap "
                   "(panic in the abort path)" % (name, why or "no comparison against MAX_TRACKED_ABORTED_TXS"))
    f = p.fns.get(HDR + "::mark_transaction_aborted")
    if f:
        # total persistence: the function is () -> a guarded store with an empty else drops ids >= MAX
        cx.bad(r4, "mark_transaction_aborted:drops-large-ids", f.where(),
               "ids >= MAX_TRACKED_ABORTED_TXS are silently not recorded (no error, no overflow list): after the "
               "8192nd transaction a rolled-back transaction becomes visible after a clean reopen (D19)") \
            if _drops_silently(f) else cx.ok(r4, "mark_transaction_aborted:total", f.where(), "every id is recorded or reported")

    # the loader that Database::open uses must be the inverse of mark/is: it enumerates ids through the membership test,
    # or re-implements the layout in the one form this checker can compare (byte loop x bit loop 0..8, id = byte*8 + bit)
    f = cx.guard(r4, "get_aborted_transactions", p.fn, HDR + "::get_aborted_transactions")
    if f and mx:
        from axvlib.core import natural_loops
        isa = HDR + "::is_transaction_aborted"
        loops = natural_loops(f)
        via_test = False
        fam_calls = [(f, c) for c in f.calls()] + [(p.fns[x], c) for x in p.closure_children.get(f.id, ()) for c in p.fns[x].calls()]
        for g_, c in fam_calls:
            if c.callee != isa:
                continue
            # a loop in the function itself, or an iterator adaptor (filter/for_each/...) whose closure makes the call
            places = [(h, body) for h, body in loops if c.bb in body] if g_ is f else [(None, None)]
            for h, body in places:
                # the loop runs over 0..MAX: a Range aggregate whose end is the constant (possibly cast)
                for b in f.blocks:
                    for st in b["stmts"]:
                        if st["rv"].get("r") == "agg" and st["rv"].get("adt") == "std::ops::Range":
                            lo, hi = st["rv"]["o"]
                            klo = op_const(lo) or {}
                            khi = op_const(hi) or {}
                            hv = khi.get("v")
                            if hv is None and op_local(hi) is not None:
                                for b2 in f.blocks:
                                    for s2 in b2["stmts"]:
                                        if s2["dst"] == [op_local(hi)] and s2["rv"].get("r") in ("cast", "use"):
                                            k2 = op_const(s2["rv"]["o"][0]) or {}
                                            hv = k2.get("v")
                                            if hv is None and str(k2.get("cdef", "")).endswith("MAX_TRACKED_ABORTED_TXS"):
                                                hv = mx
                            if klo.get("v") == 0 and hv == mx:
                                via_test = True
        reads_field = any(any(isinstance(pe, str) and pe.startswith(".aborted_txs_bitmap:") for pe in (st["rv"].get("p") or [])[1:])
                          for b in f.blocks for st in b["stmts"] if st["rv"].get("r") in ("ref", "rawptr")) or \
            any(any(isinstance(pe, str) and pe.startswith(".aborted_txs_bitmap:") for pe in (o.get("c") or o.get("m") or [])[1:])
                for b in f.blocks for st in b["stmts"] for o in (st["rv"].get("o") or []) if isinstance(st["rv"].get("o"), list))
        simple = False
        if reads_field and not via_test:
            ends = set()
            for b in f.blocks:
                for st in b["stmts"]:
                    if st["rv"].get("r") == "agg" and st["rv"].get("adt") == "std::ops::Range":
                        k = op_const(st["rv"]["o"][1]) or {}
                        if (op_const(st["rv"]["o"][0]) or {}).get("v") == 0 and "v" in k:
                            ends.add(k["v"])
            muls = {(op_const(o) or {}).get("v") for b in f.blocks for st in b["stmts"] if st["rv"].get("r") == "bin" and
                    st["rv"]["op"] in ("Mul", "MulWithOverflow", "Shl") for o in st["rv"]["o"] if op_const(o)}
            odd = [c.callee for c in f.calls() if c.callee.rsplit("::", 1)[-1] in ("trailing_zeros", "leading_zeros", "count_ones")]
            simple = ends == {8} and (8 in muls or 3 in muls) and not odd
        cx.verdict(via_test or simple, r4, "get_aborted_transactions:inverse-of-membership", f.where(),
                   "enumerates 0..MAX through is_transaction_aborted" if via_test else "byte x bit(0..8) loop, id = byte*8 + bit",
                   "get_aborted_transactions decodes the bitmap with its own bit arithmetic that does not visibly cover bits 0..8 of every "
                   "byte with id = byte*8 + bit (and does not go through is_transaction_aborted): after a clean reopen some rolled-back "
                   "transactions are not loaded as aborted (their rows become visible) or others are loaded wrongly")

    # bits are cleared by VACUUM only, which removes the aborted tuples first: recovery and everything else leave the bitmap
    # alone (the rows of a transaction rolled back before the last checkpoint are still in the data file)
    for nm in ("clear_aborted_up_to", "clear_aborted_bitmap"):
        for fid in sorted(x for x in p.fns if x.endswith("::" + nm)):
            for caller in sorted(K.callers_of(p, fid, {"Database::vacuum", K.PAGER + "::clear_aborted_up_to"})):
                root = p.fn(caller).root or caller
                okc = root in ("Database::vacuum", K.PAGER + "::clear_aborted_up_to")
                cx.verdict(okc, r4, "%s<-%s" % (fid.rsplit("::", 2)[-2] + "::" + nm, root), p.where_of(caller), "cleared by VACUUM",
                           "%s clears bits of the persisted aborted bitmap outside VACUUM: rolled-back transactions whose tuples are still in "
                           "the data file become committed after the next reopen" % root)

    # ---- C09.4b every abort path reaches the bitmap ------------------------------------------------------
    r4b = cx.rule("C09.4b", "MPT/WMC: TransactionCoordinator::abort persists the id on every success path and all "
                  "rollback funnels (Session::abort_transaction, Drop for Session, Drop for TransactionHandle) reach it", floor=4)
    mta = HDR + "::mark_transaction_aborted"
    f = cx.guard(r4b, "abort", p.fn, K.COORD + "::abort")
    if f:
        T = p.must_reach_set({mta})
        cx.verdict(p.all_success_paths_call(f, T, 0), r4b, "abort-persists", f.where(), "persisted on every success path",
                   "TransactionCoordinator::abort has a success path that does not persist the aborted id "
                   "(e.g. an early return when already Aborted in memory)")
    for fid in ("tcp::session::Session::abort_transaction", "<tcp::session::Session as std::ops::Drop>::drop",
                "<multithreading::coordinator::TransactionHandle as std::ops::Drop>::drop"):
        g = cx.guard(r4b, fid, p.fn, fid)
        if g:
            cx.verdict(p.reaches(fid, mta), r4b, fid, g.where(), "reaches the bitmap",
                       "%s no longer reaches the aborted bitmap: an implicit abort is forgotten at the next clean reopen" % fid)

    # ---- C09.5 next row id persisted ---------------------------------------------------------------------------
    r5 = cx.rule("C09.5", "MPT: DmlExecutor::insert persists the incremented next_row_id (Catalog::update_relation) on "
                 "every success path", floor=1)
    f = cx.guard(r5, "insert", p.fn, "runtime::dml::DmlExecutor::insert")
    if f:
        cx.verdict(p.all_success_paths_call(f, p.must_reach_set({"schema::catalog::Catalog::update_relation"}), 0), r5, "insert", f.where(),
                   "update_relation on every success path", "INSERT can succeed without persisting the next row id: row ids repeat after reopen")

    from . import c11
    cx.include(c11, {"C11.3"}, "C09.7", "shared with C11.3: a page handed out by allocate_page (fresh or recycled) is marked dirty and cached on every path, so that it reaches the data file at the next checkpoint/close", floor=4)

    # ---- thorough: no-flush configuration -------------------------------------------------------------------
    if cx.tier == "thorough" and "no-flush" in cx.progs:
        r6 = cx.rule("C09.6", "CONFIG: under --features no-flush the Drop impl is absent (documented: recovery replays "
                     "the log instead) while Database::flush still checkpoints", floor=2)
        q = cx.progs["no-flush"]
        cx.verdict(q.impl_of("std::ops::Drop", "Database") is None, r6, "no-flush:drop-absent", "",
                   "no Drop impl under no-flush", "Drop for Database exists under no-flush")
        fq = q.fns.get("Database::flush")
        cx.verdict(fq is not None and q.all_success_paths_call(fq, q.must_reach_set({K.PAGER_FLUSH}), 0), r6,
                   "no-flush:flush-checkpoints", "", "flush still checkpoints", "Database::flush lost its checkpoint under no-flush")


    # ---- C09.8 (construct shared with C13.4) ----------------------------------------------------------------------------
    from . import c13
    cx.include(c13, {"C13.4"}, "C09.8", "shared with C13.4: VACUUM clears the persisted aborted bitmap only up to the horizon up to which it removed "
               "the aborted tuples from the trees; a bit cleared above that horizon makes the rolled-back rows visible after the next reopen", floor=6)


def _drops_silently(f):
    """returns () and its only effect sits under a guard with an empty else"""
    ret_unit = f.locals[0] == "()"
    sw = [b for b in f.blocks if b["term"]["t"] == "switch"]
    stores = [s for b in f.blocks for s in b["stmts"] if any(isinstance(pe, str) and pe.startswith(".aborted_txs_bitmap:") for pe in s["dst"][1:])]
    return ret_unit and bool(sw) and bool(stores)
