"""C15 — schema changes are transactional and the catalog stays coherent (partly claimed)."""
from axvlib import core
from axvlib.core import AnchorMissing, op_local, op_const, enum_switches, dominated
from . import common as K

EXPLANATION = (
    "Decides the structural conditions of transactional DDL: each DDL executor appends exactly one log record on its "
    "success path, after the catalog change, and passes as redo payload the instruction it executed and as undo payload "
    "its inverse (never swapped); store_relation and remove_relation both touch the meta table and the meta index; every "
    "catalog/index tuple is stamped with the executing transaction's id (Snapshot::xid, never xmin or a constant); "
    "every ALTER action and column-action variant has an apply arm and an inverse arm; irreversible page deallocation "
    "inside a statement is reported (known finding D17, shared with C03.6); the DROPs replayed by recovery cascade "
    "to the table's indexes (shared with C08.5).")
NOT_DECIDED = "readability of old rows under the new schema after ALTER (decoding semantics); name-visibility histories"
ASSUMPTIONS = []

DDL = "runtime::ddl::DdlExecutor"
CAT = "schema::catalog::Catalog"


def arg_sources(f, call, idx):
    l = op_local(call.args[idx])
    if l is None:
        return set()
    cl = f.dep_closure(l) | {l}
    return {c.callee for c in f.calls() if op_local({"c": c.dst}) in cl}, cl


def check(cx):
    p = cx.p
    # ---- C15.1 one record, after the change, with the right payloads -------------------------------
    r1 = cx.rule("C15.1", "SIB/FLOW: execute_create_table / execute_create_index / execute_drop_table / execute_alter_table "
                 "append exactly one log record on every success path that changes the catalog; the redo argument "
                 "serialises the executed instruction (or, for DROP, the inverse of the saved CREATE) and the undo "
                 "argument its inverse; a CREATE record carries the id of the object that was created", floor=10)
    table = {
        # executor: (logger method, redo arg, undo arg, redo must depend on, redo must NOT depend on, undo must depend on, undo must NOT ..)
        "execute_create_table": ("log_create", 2, 3, {"param"}, {"inverse"}, {"inverse"}, set()),
        "execute_create_index": ("log_create", 2, 3, {"param"}, {"inverse"}, {"inverse"}, set()),
        "execute_alter_table": ("log_alter", 2, 3, {"param"}, {"try_inverse_with"}, {"try_inverse_with"}, set()),
        "execute_drop_table": ("log_drop", 2, 3, {"inverse"}, set(), {"to_create_table_instr"}, {"inverse"}),
    }
    for name, (lm, ri, ui, rneed, rnot, uneed, unot) in table.items():
        f = cx.guard(r1, name, p.fn, "%s::%s" % (DDL, name))
        if not f:
            continue
        logs = [c for c in f.calls() if c.callee == "%s::%s" % (K.LOGGER, lm)]
        anylog = [c for c in f.calls() if c.callee.startswith(K.LOGGER + "::log_")]
        cx.verdict(len(logs) == 1 and len(anylog) == 1, r1, name + ":one-record", f.where(), "exactly one %s call" % lm,
                   "%s appends %d log record(s) (%s); recovery would replay the change zero or several times" % (name, len(anylog), sorted({c.callee for c in anylog})))
        if len(logs) != 1:
            continue
        c = logs[0]

        def classify(idx):
            l = op_local(c.args[idx])
            cl = f.dep_closure(l) | {l}
            tags = set()
            if 2 in cl:  # the instruction parameter
                tags.add("param")
            for x in f.calls():
                if op_local({"c": x.dst}) in cl:
                    tags.add(x.callee.rsplit("::", 1)[-1])
            return tags
        rt, ut = classify(ri), classify(ui)
        # the distinguishing tag of the *other* payload must not appear
        good = rneed <= rt and uneed <= ut and not (rnot & rt) and not (unot & ut)
        cx.verdict(good, r1, name + ":payload-roles", c.where(),
                   "redo <- %s, undo <- %s" % (sorted(rneed), sorted(uneed)),
                   "%s passes redo derived from %s and undo derived from %s to %s (expected redo <- %s, undo <- %s): "
                   "recovery replays the inverse of the committed change" % (
                       name, sorted(rt & (rneed | uneed | rnot | unot)), sorted(ut & (rneed | uneed | rnot | unot)), lm, sorted(rneed), sorted(uneed)))
        # the record names the object the statement created: for CREATE, the id comes from the call that made the object,
        # not from a field of the instruction (recovery's undo_create drops whatever object the record names)
        if lm == "log_create":
            prov = f.nearest_calls(op_local(c.args[1]))
            makers = sorted(x[1].rsplit("::", 1)[-1] for x in prov if x[0] == "call")
            cx.verdict(bool(makers) and not any(x[0] == "param" for x in prov) and
                       all(m_ in ("get_next_object_id", "create_unique_index", "create_table", "create_index", "object_id") for m_ in makers),
                       r1, name + ":object-id-of-created-object", c.where(), "object id <- %s" % makers,
                       "%s logs its CREATE under an object id that does not come from the call that created the object (%s): recovery's "
                       "undo of an uncommitted CREATE INDEX then drops the object the record names - the table" % (name, makers or "a field of the instruction"))
        # the record is appended after the catalog change
        changes = [x for x in f.calls() if x.callee in (CAT + "::store_relation", CAT + "::update_relation", CAT + "::remove_relation",
                                                        DDL + "::create_unique_index")]
        cx.verdict(bool(changes) and all(f.dominates(x.bb, c.bb) for x in changes), r1, name + ":logged-after-change", c.where(),
                   "catalog change dominates the log append", "%s logs before (or without) changing the catalog" % name)

    # ---- C15.2 two catalog trees --------------------------------------------------------------------
    r2 = cx.rule("C15.2", "SIB: Catalog::store_relation and Catalog::remove_relation each write both the meta table and "
                 "the meta index", floor=2)
    for name in ("store_relation", "remove_relation"):
        f = cx.guard(r2, name, p.fn, "%s::%s" % (CAT, name))
        if not f:
            continue
        fam = [f] + [p.fns[c] for c in p.closure_children.get(f.id, ())]
        roots = set()
        for g in fam:
            for c in g.calls():
                if c.callee.startswith("tree::bplustree::Btree::<Acc>::") and c.callee.rsplit("::", 1)[-1] in ("upsert", "update", "insert"):
                    l = op_local(c.args[1])
                    cl = g.dep_closure(l) | {l}
                    for b in g.blocks:
                        for s in b["stmts"]:
                            if s["dst"][0] in cl:
                                for o in (s["rv"].get("o") or []) if isinstance(s["rv"].get("o"), list) else []:
                                    for pe in (o.get("c") or o.get("m") or [])[1:]:
                                        if isinstance(pe, str) and pe.endswith(":" + CAT):
                                            roots.add(pe[1:].split(":")[0])
        cx.verdict({"meta_table", "meta_index"} <= roots, r2, name, f.where(), "writes trees rooted at %s" % sorted(roots),
                   "Catalog::%s writes only %s: the name index and the relation table disagree" % (name, sorted(roots)))

    # ---- C15.3 catalog/index stamps (instances of the C03.4 rule that lie in DDL/catalog code) -------------------
    r3 = cx.rule("C15.3", "FLOW: every tuple built or stamped by DDL/catalog code (store_relation, populate_index, "
                 "remove_relation, update_relation) carries the executing transaction's id: Snapshot::xid / "
                 "ThreadContext::tid / the transaction_id parameter — never Snapshot::xmin or a constant", floor=5)
    ID_OK = {"multithreading::coordinator::Snapshot::xid", "runtime::context::ThreadContext::tid"}
    ID_BAD = {"multithreading::coordinator::Snapshot::xmin", "multithreading::coordinator::Snapshot::xmax"}
    sinks = {"storage::tuple::TupleBuilder::<'a>::build": 2, "storage::tuple::Tuple::delete": 1,
             "storage::tuple::Tuple::add_version_with": 2, CAT + "::store_relation": 3}
    n = 0
    for f in p.fns.values():
        root = f.root or f.id
        if not (root.startswith(DDL) or root.startswith(CAT)):
            continue
        for c in f.calls():
            if c.callee not in sinks:
                continue
            n += 1
            l = op_local(c.args[sinks[c.callee]])
            near = f.nearest_calls(l) if l is not None else set()
            srcs = {x for k, x in near if k == "call"}
            params = {x for k, x in near if k == "param" and f.locals[x] == "u64"}
            good = bool(srcs & ID_OK or params) and not (srcs - ID_OK) and not any(k == "const" for k, _ in near)
            cx.verdict(good, r3, "%s@%s#%d" % (c.callee.rsplit("::", 1)[-1], root, n), c.where(),
                       "id from %s" % (sorted(srcs & ID_OK) or "transaction_id parameter"),
                       "the transaction id stamped here comes from %s: the entries' visibility is tied to another "
                       "transaction's fate" % (sorted(srcs - ID_OK) or "neither the context nor a parameter"))

    # ---- C15.5 ALTER variants --------------------------------------------------------------------------
    r5 = cx.rule("C15.5", "TAB: every AlterActionInstr variant has an arm in apply_alter_action and in try_inverse_with; "
                 "every AlterColumnActionInstr variant has an arm in apply_column_alter and in inverse; no arm panics", floor=4)
    specs = [(DDL + "::apply_alter_action", "runtime::ddl::AlterActionInstr"),
             ("runtime::ddl::AlterActionInstr::try_inverse_with", "runtime::ddl::AlterActionInstr"),
             (DDL + "::apply_column_alter", "runtime::ddl::AlterColumnActionInstr"),
             ("runtime::ddl::AlterColumnActionInstr::inverse", "runtime::ddl::AlterColumnActionInstr")]
    for fid, enum in specs:
        f = cx.guard(r5, fid, p.fn, fid)
        if not f:
            continue
        sws = [x for x in enum_switches(p, f) if x[1] == enum]
        if not sws:
            cx.bad(r5, fid + ":no-match", f.where(), "no match on %s" % enum)
            continue
        bi, adt, m, oth, _ = max(sws, key=lambda x: len(x[2]))
        vs = [v["name"] for v in p.enum_variants(enum)]
        missing = [v for v in vs if core.diverges(f, m.get(v, oth))]
        explicit = len([v for v in vs if v in m])
        cx.verdict(not missing and explicit >= len(vs) - 1, r5, fid.rsplit("::", 1)[-1] + ":" + enum.rsplit("::", 1)[-1], f.where(),
                   "%d/%d variants have their own arm" % (explicit, len(vs)),
                   "variants %s of %s have no (returning) arm in %s" % (missing or [v for v in vs if v not in m], enum, fid))

    # ---- C15.4 irreversible effects (same construct as C03.6) ---------------------------------------------
    r4 = cx.rule("C15.4", "WMC: Btree::dealloc (pages back to the free list) is not reachable from a DDL statement before "
                 "commit (shared with C03.6)", floor=1)
    dealloc = "tree::bplustree::Btree::<Acc>::dealloc"
    reach = p.reach_forward([DDL + "::execute"])
    callers = [c for c in K.callers_of(p, dealloc) if c in reach]
    if not callers:
        cx.ok(r4, "none", "", "no DDL-reachable caller of Btree::dealloc")
    for c in callers:
        cx.bad(r4, "caller:" + c, p.where_of(c), "DROP TABLE frees the tree's pages inside the transaction (D17)")

    # ---- C15.6 recovery replays DROPs with the statement's catalog effect (same construct as C08.5) -------------------
    from . import c08
    cx.include(c08, {"C08.5"}, "C15.6", "shared with C08.5: every DROP that recovery replays is if_exists and a replayed DROP TABLE "
               "cascades to the table's indexes, so that the catalog after recovery holds no index without its table", floor=6,
               skip=(":guarded",))

    # ---- C15.7 one catalog namespace --------------------------------------------------------------------------------
    r7 = cx.rule("C15.7", "MPR: the statement-level CREATE executors guard the catalog store with a name check that asks the "
                 "catalog for *any* relation of that name (tables and indexes share the name index; store_relation upserts "
                 "it): the check dominates the store, reaches Catalog::get_relation_by_name/bind_relation and applies no "
                 "kind filter (is_table/is_index); the `exists` arm never reaches the store", floor=4)
    STORE = {"schema::catalog::Catalog::store_relation", DDL + "::create_unique_index"}
    LOOKUP = {"schema::catalog::Catalog::get_relation_by_name", "schema::catalog::Catalog::bind_relation"}
    KIND = {"schema::base::Relation::is_table", "schema::base::Relation::is_index", "schema::base::Relation::kind"}
    for name in ("execute_create_table", "execute_create_index"):
        f = cx.guard(r7, name, p.fn, DDL + "::" + name)
        if not f:
            continue
        stores = [c for c in f.calls() if c.callee in STORE]
        checks = []
        for c in f.calls():
            g = p.fns.get(c.callee)
            if g is None or g.impl_adt != "runtime::ddl::DdlExecutor" or c.callee in STORE:
                continue
            fam = {g.id} | set(p.closure_children.get(g.id, ()))
            called = set()
            for x in fam:
                called |= {cc.callee for cc in p.fns[x].calls()}
            if called & LOOKUP:
                checks.append((c, bool(called & KIND)))
        good = bool(stores) and bool(checks) and all(
            any(f.dominates(c.bb, s_.bb) and not filt for c, filt in checks) for s_ in stores)
        # the check's verdict must decide: a bool switch on its result dominates the store
        if good:
            decides = False
            for c, filt in checks:
                if filt:
                    continue
                res = c.dst[0]
                for bi, b in enumerate(f.blocks):
                    t = b["term"]
                    if t["t"] == "switch" and op_local(t["o"]) is not None and (op_local(t["o"]) == res or res in f.dep_closure(op_local(t["o"]))) \
                            and all(f.dominates(bi, s_.bb) for s_ in stores):
                        decides = True
            good = decides
        # when the check says the name is taken, nothing is stored: the `exists` arm never reaches the store (IF NOT EXISTS is a
        # no-op, not a re-creation - store_relation upserts the name index and would re-point the name at an empty table)
        reaches_store = False
        for c, filt in checks:
            if filt or c.term["to"] is None:
                continue
            tb = f.blocks[c.term["to"]]["term"]
            res = c.dst[0]
            for bi, b in enumerate(f.blocks):
                t = b["term"]
                if t["t"] == "switch" and t.get("ty") == "bool" and op_local(t["o"]) == res:
                    taken = f.reachable_threaded(t["otherwise"])
                    if any(s_.bb in taken for s_ in stores):
                        reaches_store = True
        cx.verdict(not reaches_store, r7, name + ":taken-name-stores-nothing", f.where(), "the `name exists` arm cannot reach the store",
                   "%s can reach the catalog store on the path where the name check answered `exists` (e.g. IF NOT EXISTS folded into the "
                   "condition): CREATE TABLE IF NOT EXISTS on an existing table creates a new empty table under the same name and the old "
                   "rows become unreachable" % name)
        cx.verdict(good, r7, name, f.where(), "name check over the whole namespace dominates the store",
                   "%s stores a relation without first asking whether *any* relation of that name exists (no check, or a check "
                   "filtered by kind): creating an index named like a table re-points the name at the index and the table "
                   "becomes unreachable" % name)

    # ---- C15.8 the inverse of a NOT NULL change restores the recorded previous state -----------------------------------
    r8 = cx.rule("C15.8", "TAB: AlterColumnActionInstr::inverse maps (SET NOT NULL, was nullable) -> DROP NOT NULL, (SET NOT NULL, was "
                 "already non-null) -> SET NOT NULL, (DROP NOT NULL, was non-null) -> SET NOT NULL, (DROP NOT NULL, was already "
                 "nullable) -> DROP NOT NULL: undoing a redundant ALTER changes nothing (the logged inverse is what recovery executes)", floor=4)
    fi = cx.guard(r8, "inverse", p.fn, "runtime::ddl::AlterColumnActionInstr::inverse")
    if fi:
        sws = [x for x in enum_switches(p, fi) if x[1] == "runtime::ddl::AlterColumnActionInstr"]
        WANT8 = {("SetNotNull", 1): "DropNotNull", ("SetNotNull", 0): "SetNotNull", ("DropNotNull", 1): "SetNotNull", ("DropNotNull", 0): "DropNotNull"}
        if not sws:
            cx.bad(r8, "no-match", fi.where(), "inverse does not match on the action")
        else:
            bi, adt, m, oth, _ = max(sws, key=lambda x: len(x[2]))
            for var in ("SetNotNull", "DropNotNull"):
                if var not in m:
                    cx.bad(r8, var + ":arm-missing", fi.where(), "no inverse arm for %s" % var)
                    continue
                reg = dominated(fi, m[var])
                got = {}
                flag_sw = None
                for b_ in sorted(reg):
                    t = fi.blocks[b_]["term"]
                    if t["t"] == "switch" and t.get("ty") == "bool":
                        l = op_local(t["o"])
                        cl = fi.dep_closure(l) | {l}
                        opl = t["o"].get("c") or t["o"].get("m") or []
                        reads_flag = any(isinstance(pe, str) and pe.startswith(".was_") for pe in opl[1:]) or \
                            any(st["dst"][0] in cl and (
                                (st["rv"].get("r") == "ref" and any(isinstance(pe, str) and pe.startswith(".was_") for pe in st["rv"]["p"][1:])) or
                                (st["rv"].get("r") == "use" and any(isinstance(pe, str) and pe.startswith(".was_")
                                                                     for pe in (st["rv"]["o"][0].get("c") or st["rv"]["o"][0].get("m") or [])[1:])))
                                for b in fi.blocks for st in b["stmts"])
                        if reads_flag:
                            flag_sw = (b_, t)
                            break
                if flag_sw is not None:
                    b_, t = flag_sw
                    zero = [tg for v, tg in t["targets"] if v == 0]
                    for val, tgt in ((0, zero[0] if zero else None), (1, t["otherwise"])):
                        if tgt is None:
                            continue
                        vs = {st["rv"]["variant"] for x in fi.reachable(tgt, blocked={b_}) if x in reg for st in fi.blocks[x]["stmts"]
                              if st["dst"] == [0] and st["rv"].get("r") == "agg" and st["rv"].get("adt") == adt}
                        got[val] = vs
                else:
                    vs = {st["rv"]["variant"] for x in reg for st in fi.blocks[x]["stmts"] if st["dst"] == [0] and st["rv"].get("r") == "agg" and st["rv"].get("adt") == adt}
                    got = {0: vs, 1: vs}
                for val in (1, 0):
                    want = WANT8[(var, val)]
                    cx.verdict(got.get(val) == {want}, r8, "%s:previous-state=%d" % (var, val), fi.where(), "inverse is %s" % want,
                               "the inverse of %s when the recorded previous state flag is %d is %s, it must be %s: undoing a redundant "
                               "ALTER COLUMN (e.g. SET NOT NULL on a column that already was NOT NULL) removes the constraint" % (
                                   var, val, sorted(got.get(val) or []), want))

    # ---- C15.9 the name->position map of a schema follows every position-shifting edit --------------------------------
    r9 = cx.rule("C15.9", "MPT: in Schema, every edit of the column vector that shifts positions (Vec::remove / insert / swap_remove / "
                 "retain / drain / truncate on `columns`) is followed on every path by a complete rebuild of the name index "
                 "(reindex / build_column_index); only an append may update the map incrementally. The map is stored with the catalog row.", floor=1)
    SCH = "schema::base::Schema"
    rebuild = {g.id for g in p.fns.values() if g.impl_adt == SCH and g.name in ("reindex", "build_column_index")}
    if not rebuild:
        cx.bad(r9, "anchor-missing:reindex", "", "Schema::reindex / build_column_index not found")
    else:
        T9 = p.must_reach_set(rebuild)
        n9 = 0
        for g in sorted(p.fns.values(), key=lambda x: x.id):
            if g.impl_adt != SCH:
                continue
            for c in g.calls():
                short = c.callee.rsplit("::", 1)[-1]
                if short not in ("remove", "insert", "swap_remove", "retain", "drain", "truncate") or not c.callee.startswith("std::vec::Vec") \
                        or not any("schema::base::Column" in a for a in c.gargs):
                    continue
                n9 += 1
                good = c.term["to"] is not None and p.all_success_paths_call(g, T9, c.term["to"])
                cx.verdict(good, r9, "%s:%s" % (g.name, short), c.where(), "followed by a rebuild of column_index",
                           "Schema::%s shifts column positions with Vec::%s and does not rebuild the name index afterwards: every later column "
                           "is looked up one position off (reads return the neighbour's values, writes land in the wrong column), and the stale "
                           "map is persisted with the catalog row" % (g.name, short))
        if n9 == 0:
            cx.bad(r9, "no-shifting-edit", "", "no position-shifting edit of Schema.columns found (DROP COLUMN gone?)")

    # ---- C15.10 catalog rows are rewritten from a fresh read ---------------------------------------------------------------
    r10 = cx.rule("C15.10", "FLOW: every Catalog::update_relation(.., Some(schema), ..) issued by the DDL executor writes a schema that comes from a "
                  "Relation read from the catalog in the same function (get_relation / get_relation_by_name), never from a Relation "
                  "handed in by the caller: within one statement earlier steps register indexes and constraints in the stored row, and a "
                  "stale copy written back erases them", floor=2)
    UPD = CAT + "::update_relation"
    READS = (CAT + "::get_relation", CAT + "::get_relation_by_name")
    n10 = 0
    for c in K.sites(p, UPD):
        f = c.fn
        if c.callee != UPD or not (f.root or f.id).startswith(DDL + "::"):
            continue
        l = op_local(c.args[3]) if len(c.args) > 3 else None
        if l is None:
            continue
        # the Some(schema) operand: walk schema producers (schema()/into_schema()/clone()) back to the Relation they were taken from
        seen_l, work, origins = set(), [l], set()
        while work:
            x = work.pop()
            if x in seen_l:
                continue
            seen_l.add(x)
            for kind, what in f.nearest_calls(x):
                if kind == "param":
                    origins.add(("param", what))
                elif kind == "call":
                    if what in READS:
                        origins.add(("read", what.rsplit("::", 1)[-1]))
                    elif what.rsplit("::", 1)[-1] in ("schema", "into_schema", "schema_mut", "clone", "to_owned"):
                        for cc in f.calls():
                            if cc.callee == what and cc.dst and cc.args and (cc.dst[0] in seen_l or cc.dst[0] in f.dep_closure(x) or True):
                                a0 = op_local(cc.args[0])
                                if a0 is not None and cc.dst[0] in (f.dep_closure(l) | {l}):
                                    work.append(a0)
                    else:
                        origins.add(("call", what.rsplit("::", 1)[-1]))
        if not origins:
            continue            # None schema (only row id / stats are updated)
        n10 += 1
        stale = sorted(o for o in origins if o[0] == "param")
        cx.verdict(not stale and any(o[0] == "read" for o in origins), r10, "fresh-schema@" + (f.root or f.id).rsplit("::", 1)[-1], c.where(),
                   "schema written back comes from %s" % sorted(o[1] for o in origins if o[0] == "read"),
                   "%s writes back the schema of a Relation it was handed by its caller (%s): index and constraint registrations made earlier in the "
                   "same statement are erased from the catalog row (a UNIQUE declared before the PRIMARY KEY loses its index)" % (f.id, stale or sorted(origins)))
    if n10 == 0:
        cx.bad(r10, "no-site", "", "no schema-writing update_relation call found in the DDL executor")

    # ---- C15.11 SET/DROP NOT NULL set the flag to the constant the action names ----------------------------------------------
    r11 = cx.rule("C15.11", "TAB: in DdlExecutor::apply_column_alter the SetNotNull arm stores the constant true into Column.is_non_null and the "
                  "DropNotNull arm the constant false (the instruction's previous-state flag is for the inverse, C15.8, and must not "
                  "decide the new state: a redundant ALTER would flip the constraint)", floor=2)
    fa_ = cx.guard(r11, "apply_column_alter", p.fn, DDL + "::apply_column_alter")
    if fa_:
        sws = [x for x in enum_switches(p, fa_) if x[1] == "runtime::ddl::AlterColumnActionInstr"]
        if not sws:
            cx.bad(r11, "no-match", fa_.where(), "apply_column_alter does not match on the action")
        else:
            bi, adt, m, oth, _ = max(sws, key=lambda x: len(x[2]))
            for var, want in (("SetNotNull", 1), ("DropNotNull", 0)):
                if var not in m:
                    cx.bad(r11, var, fa_.where(), "no arm for %s" % var)
                    continue
                reg = dominated(fa_, m[var])
                vals = []
                for b_ in sorted(reg):
                    for st in fa_.blocks[b_]["stmts"]:
                        if any(isinstance(pe, str) and pe.startswith(".is_non_null:") for pe in st["dst"][1:]):
                            k = op_const(st["rv"]["o"][0]) if st["rv"].get("r") == "use" else None
                            if k and "v" in k:
                                vals.append(k["v"])
                            else:
                                # a computed value is a violation only if the instruction's previous-state flag feeds it
                                l_ = op_local(st["rv"]["o"][0]) if st["rv"].get("o") else None
                                cl_ = (fa_.dep_closure(l_) | {l_}) if l_ is not None else set()
                                from_flag = any(s2["dst"][0] in cl_ and any(isinstance(pe, str) and pe.startswith(".was_") for pe in
                                                                             ((s2["rv"].get("p") or []) + [pe2 for o2 in (s2["rv"].get("o") or []) if isinstance(s2["rv"].get("o"), list)
                                                                                                         for pe2 in (o2.get("c") or o2.get("m") or [])])[1:])
                                                for b2 in fa_.blocks for s2 in b2["stmts"])
                                vals.append("previous-state flag" if from_flag else want)
                cx.verdict(vals == [want], r11, var, fa_.where(), "stores %s" % bool(want),
                           "the %s arm of apply_column_alter stores %s into is_non_null instead of the constant %s: ALTER COLUMN %s on a column "
                           "that already is in that state flips it" % (var, vals or "nothing", bool(want), "SET NOT NULL" if want else "DROP NOT NULL"))

    # ---- C15.12 a stored index is registered with its table ----------------------------------------------------------------------
    r12 = cx.rule("C15.12", "MPT: in DdlExecutor::create_unique_index every success path that stored the index relation also enters the "
                  "index into the table's `table_indexes` map (unless the table keeps no such map); the registration does not depend on "
                  "whether an equal UNIQUE constraint already exists - an index the table does not know of survives DROP TABLE CASCADE "
                  "and keeps its name taken", floor=1)
    fc = cx.guard(r12, "create_unique_index", p.fn, "runtime::ddl::DdlExecutor::create_unique_index")
    if fc:
        def reads_field(g, l, field):
            ls = g.provenance_locals(l) | {l}
            for _ in range(4):         # through the Option adaptors that hand out the same storage
                more = set()
                for c in g.calls():
                    if c.dst and c.dst[0] in ls and c.callee.rsplit("::", 1)[-1] in ("as_mut", "as_ref", "as_deref", "as_deref_mut", "unwrap", "expect") \
                            and c.args and op_local(c.args[0]) is not None:
                        more |= g.provenance_locals(op_local(c.args[0])) | {op_local(c.args[0])}
                if more <= ls:
                    break
                ls |= more
            for b_ in g.blocks:
                for st in b_["stmts"]:
                    if st["dst"][0] in ls:
                        pls = [st["rv"].get("p") or []] + [(o.get("c") or o.get("m") or []) for o in (st["rv"].get("o") or []) if isinstance(st["rv"].get("o"), list) and isinstance(o, dict)]
                        if any(isinstance(pe, str) and pe.startswith("." + field + ":") for pl in pls for pe in pl[1:]):
                            return True
            return False
        store = [c for c in fc.calls() if c.callee == "schema::catalog::Catalog::store_relation"]
        ins = [c for c in fc.calls() if c.callee.rsplit("::", 1)[-1] == "insert" and c.args and op_local(c.args[0]) is not None
               and reads_field(fc, op_local(c.args[0]), "table_indexes")]
        no_map = set()
        for bi, adt, m, oth, src in enum_switches(p, fc):
            if adt == "std::option::Option" and reads_field(fc, src[0], "table_indexes"):
                no_map.add((bi, m.get("None", oth)))
        rets = {bi for bi, b in enumerate(fc.blocks) if b["term"]["t"] == "ret"}
        good = bool(store) and bool(ins)
        leak = None
        if good:
            for s_ in store:
                if s_.term.get("to") is None:
                    continue
                reach = fc.reachable(s_.term["to"], blocked={c.bb for c in ins} | fc.err_blocks(), edge_filter=lambda a, b_: (a, b_) not in no_map)
                if reach & rets:
                    good, leak = False, sorted(reach & rets)[0]
        cx.verdict(good, r12, "index-registered-with-table", (ins or store or fc.calls())[0].where() if (ins or store) else fc.where(),
                   "after store_relation every success path inserts into table_indexes",
                   "create_unique_index can return successfully after storing the index without entering it into the table's "
                   "table_indexes (%s): DROP TABLE .. CASCADE leaves the index behind" % ("path to bb%s" % leak if leak is not None else "no registration found"))
