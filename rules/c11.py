"""C11 — every page has exactly one owner; freed pages are reused, never lost (partly claimed)."""
from axvlib import core
from axvlib.core import AnchorMissing, op_local, op_const, enum_switches, dominated
from . import common as K

EXPLANATION = (
    "Decides the layering and pairing of page allocation: only the frozen set of callers allocates/frees pages, the "
    "free-list fields are written only by their setters which are called only inside allocate_page/dealloc_page, "
    "allocation consults the free list before growing the file (get_next_page only on the empty-free-list branch), an "
    "allocated page is marked dirty and cached on every success path, a freed page is linked, rewritten as a free page "
    "and cached, every cell taken out of a page is handed to the cell deallocator (its overflow chain is freed), and "
    "dropping a relation frees its tree including overflow chains.")
NOT_DECIDED = ("uniqueness of ownership in general (aliasing of runtime page ids, e.g. a cloned divider cell sharing an "
               "overflow chain); the structural breach D17 (pages freed by an uncommitted DROP) is reported under C03/C15")
ASSUMPTIONS = []

BT = "tree::bplustree::Btree::<Acc>::"
ALLOC = K.PAGER + "::allocate_page"
DEALLOC = K.PAGER + "::dealloc_page"
ALLOC_CALLERS = {"Database::create": "the two catalog roots", "Database::open": "catalog roots of a database that has only page zero",
                 "runtime::ddl::DdlExecutor::create_unique_index": "root of a new index",
                 "runtime::ddl::DdlExecutor::execute_create_table": "root of a new table",
                 BT + "balance": "new sibling during redistribution", BT + "balance_deeper": "new root child",
                 "tree::cell_ops::CellBuilder::build_cell": "overflow chain of a large cell"}
DEALLOC_CALLERS = {BT + "balance": "emptied sibling", BT + "balance_shallower": "collapsed root child", BT + "dealloc": "whole tree",
                   BT + "dealloc_overflow_chain": "overflow chain of a dropped tree's cell",
                   "tree::cell_ops::CellDeallocator::deallocate_cell": "overflow chain of a removed/replaced cell"}


def check(cx):
    p = cx.p
    r1 = cx.rule("C11.1", "WMC: Pager::allocate_page / dealloc_page are called only from the frozen caller tables; the "
                 "free-list setters only from inside them", floor=12)
    for callee, table in ((ALLOC, ALLOC_CALLERS), (DEALLOC, DEALLOC_CALLERS)):
        cx.guard(r1, callee, p.fn, callee)
        for c in K.callers_of(p, callee, set(table)):
            cx.verdict(c in table, r1, "%s<-%s" % (callee.rsplit("::", 1)[-1], c), p.where_of(c), table.get(c, ""),
                       "%s is a new caller of %s: pages are %s outside the audited sites" % (
                           c, callee, "allocated" if callee == ALLOC else "returned to the free list"))
    for setter in ("set_first_free_page", "set_last_free_page", "get_next_page"):
        sid = K.PAGER + "::" + setter
        cx.guard(r1, sid, p.fn, sid)
        for c in K.callers_of(p, sid, {ALLOC, DEALLOC}):
            root = p.fn(c).root or c
            cx.verdict(root in (ALLOC, DEALLOC), r1, "%s<-%s" % (setter, c), p.where_of(c), "inside allocate/dealloc",
                       "%s is called from %s: the free list is edited outside allocate_page/dealloc_page" % (setter, c))

    r2 = cx.rule("C11.2", "MPR: in allocate_page the file grows (get_next_page) only on the branch where the free list "
                 "is empty, and the free-list head is advanced to the popped page's successor on the other branch", floor=2)
    f = cx.guard(r2, "allocate_page", p.fn, ALLOC)
    if f:
        ffp = [c for c in f.calls() if c.callee == K.PAGER + "::first_free_page"]
        gnp = [c for c in f.calls() if c.callee == K.PAGER + "::get_next_page"]
        sff = [c for c in f.calls() if c.callee == K.PAGER + "::set_first_free_page"]
        sw = [x for x in enum_switches(p, f) if x[1] == "std::option::Option"]
        good = bool(ffp) and bool(gnp) and bool(sw)
        why = ""
        if good:
            # the switch on first_free_page()'s result
            sel = None
            for bi, adt, m, oth, src in sw:
                if src and ffp and src[0] == op_local({"c": ffp[0].dst}):
                    sel = (bi, m, oth)
            if sel is None:
                good = False
                why = "no branch on first_free_page()"
            else:
                bi, m, oth = sel
                none_t = m.get("None", oth)
                some_t = m.get("Some", oth)
                none_reg = f.reachable(none_t, blocked={some_t}) - f.reachable(some_t, blocked={none_t})
                some_reg = f.reachable(some_t, blocked={none_t}) - f.reachable(none_t, blocked={some_t})
                good = all(c.bb in none_reg for c in gnp) and bool(sff) and all(c.bb in some_reg for c in sff)
                why = "get_next_page on the None arm only, set_first_free_page on the Some arm"
        cx.verdict(good, r2, "reuse-before-growth", f.where(), why,
                   "allocate_page grows the file although the free list is not empty (or never advances the free-list head): freed pages are lost")
        # the new head is the popped page's `next`
        if sff:
            l = op_local(sff[0].args[1])
            srcs = {c.callee for c in f.calls() if op_local({"c": c.dst}) in f.dep_closure(l)}
            cx.verdict(any(x.endswith("::with_page") for x in srcs), r2, "head-advances-to-next", sff[0].where(),
                       "new head read from the popped page", "the new free-list head does not come from the popped page's next pointer")

    r3 = cx.rule("C11.3", "MPT: an allocated page is marked dirty and cached on every success path of allocate_page; a "
                 "deallocated page is rewritten as a free page, linked behind the old tail, and cached", floor=5)
    if f:
        md = {x.id for x in p.fns.values() if x.name == "mark_dirty" and (x.impl_adt or "").endswith("MemFrame")}
        cx.verdict(bool(md) and p.all_success_paths_call(f, md, 0), r3, "alloc:mark_dirty", f.where(),
                   "mark_dirty on every success path (fresh and recycled pages alike)",
                   "allocate_page has a success path (e.g. the free-list branch) that does not mark the page dirty: a "
                   "recycled page that is not written again keeps its old free-page image on disk")
        cx.verdict(p.all_success_paths_call(f, {K.PAGER + "::cache_frame"}, 0), r3, "alloc:cached", f.where(),
                   "cache_frame on every success path", "an allocated page is not put into the cache")
    g = cx.guard(r3, "dealloc_page", p.fn, DEALLOC)
    if g:
        slf = [c for c in g.calls() if c.callee == K.PAGER + "::set_last_free_page"]
        cx.verdict(bool(slf) and p.all_success_paths_call(g, {K.PAGER + "::set_last_free_page"}, 0), r3, "dealloc:tail", g.where(),
                   "the freed page becomes the free-list tail", "dealloc_page can succeed without linking the page into the free list")
        link = [c for c in g.calls() if c.callee == K.PAGER + "::with_page_mut"]
        cx.verdict(bool(link), r3, "dealloc:link", g.where(), "old tail's next is set", "the old tail is no longer linked to the freed page")

    if g:
        # the image written to disk and cached is the *converted* free page (result of MemFrame::dealloc)
        dl = [c for c in g.calls() if c.callee.endswith("MemFrame::dealloc")]
        wb = [c for c in g.calls() if c.callee.endswith("MemFrame::with_bytes") or c.callee.endswith("MemFrame::with_bytes_mut")]
        cf = [c for c in g.calls() if c.callee == K.PAGER + "::cache_frame"]
        good = bool(dl) and bool(wb) and bool(cf)
        for w in wb:
            recv = op_local(w.args[0])
            good = good and any(op_local({"c": d.dst}) in (g.dep_closure(recv) | {recv}) and g.dominates(d.bb, w.bb) for d in dl)
        for c in cf:
            a = op_local(c.args[1])
            good = good and any(op_local({"c": d.dst}) in (g.dep_closure(a) | {a}) for d in dl)
        cx.verdict(good, r3, "dealloc:free-image-written", g.where(), "the page written and cached is the converted free page",
                   "dealloc_page writes/caches the page before (or without) converting it to a free page: the disk keeps the old "
                   "live image, whose pointer fields are then read as the free-list link (cyclic or dangling free list)")

    # ---- C11.3b nothing that can evict runs between ensure_cached(id) and cache.remove(id) in dealloc_page ----------------
    r3b = cx.rule("C11.3b", "MPR: in Pager::dealloc_page no call that can evict a frame (anything reaching Pager::cache_frame / PageCache::evict) "
                  "lies on a path between ensure_cached(id) and cache.remove(id): with a full small cache the frame just loaded is the "
                  "one evicted, remove() then finds nothing and the conversion to a free page is skipped silently", floor=1)
    fd_ = cx.guard(r3b, "dealloc_page", p.fn, DEALLOC)
    if fd_:
        ens = [c for c in fd_.calls() if c.callee.startswith(K.PAGER + "::ensure_cached")]
        rem = [c for c in fd_.calls() if c.callee.endswith("PageCache::remove")]
        EV = {x for x in p.fns if x.endswith("PageCache::evict") or x == K.PAGER + "::cache_frame"}
        if not ens or not rem:
            cx.bad(r3b, "window", fd_.where(), "dealloc_page no longer has the ensure_cached / cache.remove pair")
        else:
            between = set()
            for e in ens:
                if e.term["to"] is None:
                    continue
                fw = fd_.reachable(e.term["to"], blocked={r_.bb for r_ in rem})
                for r_ in rem:
                    # blocks that can still reach the remove
                    between |= {b for b in fw if r_.bb in fd_.reachable(b)}
            evicting = sorted({c.callee.rsplit("::", 1)[-1] for c in fd_.calls() if c.bb in between and c not in ens
                               and (c.callee in EV or (p.reach_forward([c.callee]) & EV))})
            cx.verdict(all(any(fd_.dominates(e.bb, r_.bb) for e in ens) for r_ in rem) and not evicting, r3b, "window", fd_.where(),
                       "ensure_cached dominates remove and nothing in between can evict",
                       "between ensure_cached(id) and cache.remove(id) dealloc_page calls %s, which can evict the frame it has just loaded: "
                       "the page is then put on the free list without being converted, and its old pointer fields are later read as the "
                       "free-list link" % (evicting or "nothing, but ensure_cached does not dominate remove"))

    r4 = cx.rule("C11.4", "MPT: in Btree::{update_cell, remove, remove_tuple} the cell taken out of the page flows into "
                 "CellDeallocator::deallocate_cell on every success path after it was taken; Btree::dealloc frees overflow "
                 "chains; Catalog::remove_relation frees the tree; a drained child page is freed; nothing reachable from "
                 "Btree::balance* frees a cell's overflow chain (divider cells alias leaf chains); update_cell/remove/remove_tuple rebalance the "
                 "page of the position they changed; the overflow-chain walk frees every page it read; a root page allocated by CREATE TABLE is stored", floor=12)
    dc = "tree::cell_ops::CellDeallocator::deallocate_cell"

    def takes(h):
        return [c for c in h.calls() if c.callee.endswith("BtreeOps>::replace") or c.callee.endswith("BtreeOps>::remove")
                or (c.callee.rsplit("::", 1)[-1] in ("replace", "remove") and "Latch" not in c.callee and "storage::" in c.callee)]
    bal = [g.id for g in p.fns.values() if g.impl_adt == "tree::bplustree::Btree" and g.name.startswith("balance")]
    if not bal:
        cx.bad(r4, "anchor-missing:balance", "", "Btree::balance* not found")
    bal_reach = p.reach_forward(bal) if bal else set()
    DCT = p.must_reach_set({dc})
    for name in ("update_cell", "remove", "remove_tuple"):
        h = cx.guard(r4, name, p.fn, BT + name)
        if not h:
            continue
        # the take may sit in the method itself or in a helper of the tree it calls (outside the rebalancing code)
        fam = [h] + [p.fns[x] for x in sorted(p.reach_forward([h.id])) if x in p.fns and x != h.id and x not in bal_reach
                     and (p.fns[x].impl_adt == "tree::bplustree::Btree") and takes(p.fns[x])]
        n_take, good = 0, True
        for g in fam:
            for t in takes(g):
                n_take += 1
                if t.term["to"] is not None:
                    good = good and p.all_success_paths_call(g, DCT, t.term["to"])
        cx.verdict(good and n_take > 0, r4, name, h.where(), "%d take(s), each followed by deallocate_cell" % n_take,
                   "Btree::%s takes a cell out of a page and can return successfully without handing it to the cell "
                   "deallocator: its overflow pages are leaked" % name)
    # rebalancing moves cells between pages and drops divider cells, which only alias the overflow chain of a leaf
    # cell: nothing reachable from balance* may free a cell's chain
    if bal:
        path = p.path(bal[0], {dc}) if dc in bal_reach else None
        if path is None and dc in bal_reach:
            for b_ in bal:
                path = path or p.path(b_, {dc})
        cx.verdict(dc not in bal_reach, r4, "balance:never-frees-cells", p.fn(bal[0]).where(), "deallocate_cell is not reachable from Btree::balance*",
                   "rebalancing reaches CellDeallocator::deallocate_cell (%s): an interior divider cell is a clone of a leaf cell and "
                   "shares its overflow chain, so freeing it puts pages of a live row on the free list (two owners)" % " -> ".join((path or [])[-4:]))
    # rebalancing starts at the page the cell was taken from (the position found by the search), never at a page the caller
    # passed in: VACUUM passes the root, and a rebalance that starts at the root never merges or frees the leaves it emptied
    for name in ("update_cell", "remove", "remove_tuple"):
        h = p.fns.get(BT + name)
        if not h:
            continue
        bcs = [c for c in h.calls() if c.callee == BT + "balance"]
        if not bcs:
            cx.bad(r4, name + ":rebalances", h.where(), "Btree::%s no longer rebalances after changing a page" % name)
            continue
        for c in bcs:
            prov = h.nearest_calls(op_local(c.args[1]))
            from_pos = any(x[0] == "call" and x[1].endswith("Position::<P>::entry") for x in prov)
            from_param = any(x[0] == "param" for x in prov)
            cx.verdict(from_pos and not from_param, r4, name + ":rebalances-touched-page", c.where(), "balance(position.entry())",
                       "Btree::%s rebalances a page that does not come from the position it changed (%s): emptied leaves are never merged "
                       "or returned to the free list, and the next insert meets an empty sibling" % (name, sorted(prov)))
    h = cx.guard(r4, "balance_shallower", p.fn, BT + "balance_shallower")
    if h:
        dr = [c for c in h.calls() if c.callee.rsplit("::", 1)[-1] == "drain" and "storage::" in c.callee]
        good = bool(dr)
        for d in dr:
            good = good and d.term["to"] is not None and p.all_success_paths_call(h, p.must_reach_set({DEALLOC}), d.term["to"])
        cx.verdict(good, r4, "balance_shallower:drained-child-freed", h.where(), "the drained child page is deallocated on every success path",
                   "balance_shallower drains the root's only child into the root and returns without freeing the child page: "
                   "one page per removed level is neither in a tree nor on the free list")
    h = cx.guard(r4, "dealloc", p.fn, BT + "dealloc")
    if h:
        cx.verdict(p.reaches(h.id, BT + "dealloc_overflow_chain") and p.reaches(h.id, DEALLOC), r4, "dealloc:overflow", h.where(),
                   "frees tree pages and overflow chains", "Btree::dealloc no longer frees overflow chains")
        # an empty tree still owns its root page: every success path of dealloc frees at least that page
        from axvlib.core import natural_loops as _nl
        T_ = p.must_reach_set({DEALLOC})
        heads = [hh for hh, body in _nl(h) if any(c.bb in body and any(t in T_ for t in p.targets(c)) for c in h.calls())]
        cx.verdict(bool(heads) and not h.success_returns_from(0, blocked=set(heads)), r4, "dealloc:every-path-frees", h.where(),
                   "every success path passes the loop that returns the visited pages to the pager",
                   "Btree::dealloc has a success path that frees nothing (e.g. an early return for an empty tree): the root page of a "
                   "dropped empty table is neither in a tree nor on the free list")
    # a page the tree has latched is released before it is handed to dealloc_page: the pager can convert a frame to a free page
    # only when nobody holds it (cache.remove answers None for a pinned frame and the conversion is skipped silently)
    for g in sorted(p.fns.values(), key=lambda x: x.id):
        if g.impl_adt != "tree::bplustree::Btree" or g.root:
            continue
        dls = [c for c in g.calls() if c.callee.startswith(DEALLOC)]
        if not dls:
            continue
        latches = [c for c in g.calls() if c.callee in (BT + "get_page_mut", BT + "get_page") and len(c.args) > 1 and op_local(c.args[1]) is not None]
        rels = [c for c in g.calls() if c.callee.rsplit("::", 1)[-1] == "release" and "accessor" in c.callee.lower() and len(c.args) > 1]
        for i, d in enumerate(dls):
            dl = op_local(d.args[1]) if len(d.args) > 1 else None
            if dl is None:
                continue
            # single-assignment temporaries: follow plain copies back to the variable
            def var_of(l, g=g):
                for _ in range(4):
                    nxt = None
                    for b in g.blocks:
                        for st in b["stmts"]:
                            if st["dst"] == [l] and st["rv"].get("r") == "use":
                                pl = st["rv"]["o"][0].get("c") or st["rv"]["o"][0].get("m")
                                if pl and len(pl) == 1:
                                    nxt = pl[0]
                    if nxt is None:
                        return l
                    l = nxt
                return l
            dv = var_of(dl)
            if not any(var_of(op_local(c.args[1])) == dv for c in latches):
                continue            # this function never latched that page itself
            good = any(var_of(op_local(r_.args[1])) == dv and g.dominates(r_.bb, d.bb) for r_ in rels if op_local(r_.args[1]) is not None)
            cx.verdict(good, r4, "%s:release-before-dealloc#%d" % (g.name, i), d.where(), "the latched page is released before it is freed",
                       "Btree::%s frees a page it has latched without releasing the latch first: Pager::dealloc_page finds the frame pinned, "
                       "skips the conversion to a free page and the free list is linked through a page that never becomes one" % g.name)
    # the overflow-chain walk frees every page whose link it has read, including the last one (whose link is None)
    h = cx.guard(r4, "dealloc_overflow_chain", p.fn, BT + "dealloc_overflow_chain")
    if h:
        WP = {x for x in p.fns if x.startswith(K.PAGER + "::with_page")}
        R_ = p.must_reach_set(WP)
        D_ = p.must_reach_set({DEALLOC})
        reads = [c for c in h.calls() if any(t in R_ for t in p.targets(c)) and not any(t in D_ for t in p.targets(c))]
        good = bool(reads)
        for c in reads:
            if c.term["to"] is not None:
                good = good and p.all_success_paths_call(h, D_, c.term["to"])
        cx.verdict(good, r4, "dealloc_overflow_chain:frees-what-it-read", h.where(), "%d link read(s), each followed by dealloc_page on every success path" % len(reads),
                   "Btree::dealloc_overflow_chain can read a page's link and return without freeing that page (the walk stops when the link "
                   "is None): the last page of every overflow chain of a dropped table is neither in a tree nor on the free list")
    # a page taken for a new table ends up in a stored relation
    h = cx.guard(r4, "execute_create_table", p.fn, "runtime::ddl::DdlExecutor::execute_create_table")
    if h:
        allocs = [c for c in h.calls() if c.callee.startswith(ALLOC)]
        S_ = p.must_reach_set({"schema::catalog::Catalog::store_relation"})
        good = bool(allocs)
        for c in allocs:
            if c.term["to"] is not None:
                good = good and p.all_success_paths_call(h, S_, c.term["to"])
        cx.verdict(good, r4, "create_table:allocated-root-is-stored", h.where(), "every success path after allocate_page stores the relation",
                   "execute_create_table can return successfully (IF NOT EXISTS on an existing table) after taking a page that no relation "
                   "refers to: one page per such statement is owned by nobody")
    h = cx.guard(r4, "remove_relation", p.fn, "schema::catalog::Catalog::remove_relation")
    if h:
        cx.verdict(p.reaches(h.id, BT + "dealloc"), r4, "remove_relation:frees-tree", h.where(), "reaches Btree::dealloc",
                   "dropping a relation no longer frees its tree")

    # ---- C11.5 (construct shared with C12.1) ---------------------------------------------------------------------------
    from . import c12
    cx.include(c12, {"C12.1"}, "C11.5", "shared with C12.1: every write latch marks its frame dirty; the free list is linked through overflow-page "
               "write latches, so a latch that does not mark the frame dirty keeps the link in the cache only and the list is cut at the "
               "next flush (the pages behind the cut have no owner)", floor=3)
