"""C14 — statements issued from several threads all finish and stay correct (partly claimed)."""
import collections
from axvlib import core, locks
from axvlib.core import AnchorMissing, op_local, op_const, enum_switches, dominated, natural_loops
from . import common as K

EXPLANATION = (
    "Decides the lock discipline visible in the program text: lock classes are the protected types (pager, transaction "
    "table, tuple-commit map, transaction handle, logger LSN, job queue, server database slot, page latches); for every "
    "call site the set of guards still alive is computed by dataflow over the MIR and combined with the interprocedural "
    "may-acquire sets. Rules: no non-latch class is re-acquired while held (parking_lot locks are not re-entrant: a "
    "certain self-deadlock); the held->acquired relation between classes is acyclic; blocking page latches are taken under "
    "the pager lock only at the audited sites; the leaf iterator releases a page before it moves on; a queued job wakes a "
    "worker and workers survive panicking jobs; the submitter always gets an answer (result channel).")
NOT_DECIDED = ("serialisability of outcomes; latch order among pages of one tree (instances of one class); fairness and "
               "timing; the pager-lock/page-latch inversion between checkpoint and B-tree writers (advisory D24)")
ASSUMPTIONS = ["all SharedPager clones of one Database guard the same Pager (class = instance for PAGER, TXTABLE, TUPLE_COMMITS, JOB_QUEUE)"]

NON_REENTRANT = {"PAGER", "TXTABLE", "TUPLE_COMMITS", "JOB_QUEUE", "SERVER_DB", "HANDLE", "LOGGER_LSN", "CATALOG"}

# direct page-latch acquisitions that run while the pager lock is held (functions of / under Pager)
LATCH_UNDER_PAGER = {
    "io::pager::Pager::with_page": "free-list pop in allocate_page: the page is on the free list, nobody else latches it",
    "io::pager::Pager::with_page_mut": "free-list tail link in dealloc_page: a free page",
    "io::pager::Pager::try_with_page": "helper over read_page, same sites",
    "io::pager::Pager::try_with_page_mut": "helper over read_page, same sites",
    "io::pager::Pager::dealloc_page": "writes the freed page: the frame was just removed from the cache under is_free()",
    "io::pager::Pager::cache_frame": "writes an evicted victim chosen by is_free()",
    "<io::pager::Pager as std::io::Write>::flush": "checkpoint: takes every frame (advisory D24)",
}


def check(cx):
    p = cx.p
    L = locks.LockFacts(p)
    E = L.order_edges()
    graph = collections.defaultdict(list)
    for hc, hm, ac, am, f, c, via in E:
        graph[(hc, ac)].append((hm, am, f, c, via))
    cx.notes.append("lock-class edges (held -> acquired): %s" % sorted({"%s->%s" % k for k in graph}))
    nacq = sum(len(v) for v in L.direct.values())
    cx.notes.append("%d direct acquisition sites in %d functions; %d call sites with a guard held" % (
        nacq, sum(1 for v in L.direct.values() if v), sum(len(v) for v in L.held_at.values())))

    # ---- C14.1 no re-acquisition -------------------------------------------------------------------
    r1 = cx.rule("C14.1", "LOCK: no lock class other than page latches is acquired while a guard of the same class is "
                 "alive on the path (write involved: certain self-deadlock; read under read: deadlock as soon as a "
                 "writer queues in between)", floor=7)
    classes_seen = {hc for (hc, ac) in graph} | {ac for (hc, ac) in graph}
    for cl in sorted(NON_REENTRANT & (classes_seen | {"PAGER", "TXTABLE"})):
        hits = graph.get((cl, cl), [])
        if not hits:
            cx.ok(r1, cl, "", "never re-acquired while held")
            continue
        seen = set()
        for hm, am, f, c, via in hits:
            key = "%s@%s" % (cl, f.id)
            if key in seen:
                continue
            seen.add(key)
            cx.bad(r1, key, c.where(), "%s is acquired (%s) through %s while a %s guard of the same lock is alive in %s: "
                   "the thread deadlocks on itself" % (cl, am, via, hm, f.id))
    # count instances for the floor
    for f_id, acq in L.direct.items():
        pass

    # ---- C14.2 acyclic class order ---------------------------------------------------------------------
    r2 = cx.rule("C14.2", "LOCK: the held->acquired relation between lock classes is acyclic (page latches excluded, see "
                 "C14.3); every edge is listed in the evidence", floor=8)
    adj = collections.defaultdict(set)
    for (hc, ac) in graph:
        if hc != ac and "PAGE_LATCH" not in (hc, ac):
            adj[hc].add(ac)
    color, cycles = {}, []

    def dfs(u, path):
        color[u] = 1
        for v in sorted(adj.get(u, ())):
            if color.get(v) == 1:
                cycles.append(path[path.index(v):] + [v])
            elif color.get(v) is None:
                dfs(v, path + [v])
        color[u] = 2
    for u in sorted(adj):
        if color.get(u) is None:
            dfs(u, [u])
    for (hc, ac), ws in sorted(graph.items()):
        if hc == ac or "PAGE_LATCH" in (hc, ac):
            continue
        in_cycle = any(hc in cy and ac in cy and cy.index(ac) == cy.index(hc) + 1 for cy in cycles)
        hm, am, f, c, via = ws[0]
        cx.verdict(not in_cycle, r2, "%s->%s" % (hc, ac), c.where(), "%d site(s), e.g. %s" % (len(ws), f.id),
                   "lock classes %s and %s are acquired in both orders (cycle %s): two threads can deadlock; this edge e.g. in %s via %s" % (
                       hc, ac, cycles[0] if cycles else "", f.id, via))

    # ---- C14.3 page latches under the pager lock ---------------------------------------------------------
    r3 = cx.rule("C14.3", "LOCK: blocking page latches are taken while the pager lock is held only by the audited "
                 "functions (victims filtered by is_free(), free-list pages); PageCache::evict tests is_free() before "
                 "removing a frame", floor=4)
    pager_scope = {f.id for f in p.fns.values() if (f.impl_adt == K.PAGER or (f.root or "").startswith("io::pager::Pager::")
                                                    or (f.root or "").startswith("<io::pager::Pager as"))}
    seen = set()
    for fid in sorted(pager_scope):
        f = p.fns[fid]
        if p.inline_mode and p.transparent(f.root or fid):
            continue            # judged, inlined, in the functions that call it
        for c in f.calls():
            latch = False
            if len(c.dst) == 1:
                gc = locks.guard_class(f.locals[c.dst[0]])
                latch = bool(gc and gc[0] == "PAGE_LATCH")
            for t in p.targets(c):
                if t in pager_scope:
                    continue
                if any(cl == "PAGE_LATCH" for cl, _ in L.may.get(t, ())):
                    latch = True
            if not latch:
                continue
            root = f.root or fid
            if root in seen:
                continue
            seen.add(root)
            cx.verdict(root in LATCH_UNDER_PAGER, r3, "latch-under-pager:" + root, c.where(), LATCH_UNDER_PAGER.get(root, ""),
                       "%s takes a blocking page latch while the pager lock is held; B-tree writers hold page latches and then "
                       "ask for the pager lock: opposite orders, two threads can deadlock" % root)
    # a PAGER guard alive across a call into non-pager code that takes page latches is the inverse order
    seen2 = set()
    # functions that can block on a page latch without going through the pager's own (audited) functions
    outside = {fid for fid, acq in L.direct.items() if fid not in pager_scope and any(cl == "PAGE_LATCH" for _, cl, _m in acq)}
    edges_ = p.edges()
    changed = True
    while changed:
        changed = False
        for fid in p.raw_fns:
            if fid in outside or fid in pager_scope:
                continue
            if any(t in outside for t in edges_.get(fid, ())):
                outside.add(fid)
                changed = True
    for hm, am, f, c, via in graph.get(("PAGER", "PAGE_LATCH"), []):
        ok_via = via == "direct" and (f.root or f.id) in pager_scope or via in pager_scope or \
            (via in p.fns and (p.fns[via].root or via) in pager_scope) or (via != "direct" and via not in outside)
        key = "pager-held-across:%s" % (f.root or f.id)
        if ok_via or key in seen2:
            continue
        seen2.add(key)
        cx.bad(r3, key, c.where(), "%s keeps the pager lock while calling %s, which blocks on a page latch; everywhere else page "
               "latches are taken first and the pager lock second: with two threads on one tree this deadlocks" % (f.id, via))
    if not seen2:
        cx.ok(r3, "pager-held-across:none", "", "the pager guard is never alive across latch-taking code outside the pager (%d sites checked)" % len(graph.get(("PAGER", "PAGE_LATCH"), [])))

    # the checkpoint inversion is known and only advisory
    cx.advisory(r3, "checkpoint-takes-every-frame", p.fn(K.PAGER_FLUSH).where() if K.PAGER_FLUSH in p.fns else "",
                "D24: Pager::flush takes the write latch of every cached frame, pinned or not, while holding the pager lock; a "
                "B-tree writer holds page latches and then asks for the pager lock. No two-thread hang could be exhibited; "
                "reported for information only")
    fe = p.fns.get("io::cache::PageCache::evict")
    if fe:
        cx.verdict(p.reaches(fe.id, "multithreading::frames::MemFrame::is_free"), r3, "evict-filters-pinned", fe.where(),
                   "evict tests is_free()", "evict no longer tests is_free(): a pinned frame can be evicted while latched")

    # ---- C14.4 iterator hand-over -------------------------------------------------------------------------
    r4 = cx.rule("C14.4", "MPT: BtreePositionalIterator::{adv, rev} release the page they leave on every success path "
                 "that had a current page (no hold-and-wait along the leaf chain); a new scan iterator latches the root", floor=3)
    for name in ("adv", "rev"):
        fs = p.find_fns(r"BtreePositionalIterator::%s$" % name)
        if not fs:
            cx.bad(r4, name + ":anchor-missing", "", "iterator method %s not found" % name)
            continue
        f = fs[0]
        rel = {c.bb for c in f.calls() if c.callee.rsplit("::", 1)[-1] == "release"}
        gp = [c for c in f.calls() if c.callee.endswith("::get_page")]
        good = bool(rel) and bool(gp)
        for g in gp[:1]:
            if g.term["to"] is not None:
                good = good and not f.success_returns_from(g.term["to"], blocked=rel)
        cx.verdict(good, r4, name, f.where(), "release on every success path after reading the sibling pointer",
                   "BtreePositionalIterator::%s can move on without releasing the page it leaves: scans accumulate latches" % name)

    # a running scan keeps the root latched in its own accessor: writers write-latch the root for their whole operation, so
    # this is what keeps a rebalance from moving cells across the leaf boundary a scanner is crossing
    fp_ = p.find_fns(r"BtreePositionalIterator::from_position$")
    if not fp_:
        cx.bad(r4, "from_position:anchor-missing", "", "BtreePositionalIterator::from_position not found")
    else:
        f = fp_[0]
        gp = {g.id for g in p.fns.values() if g.impl_adt == "tree::bplustree::Btree" and g.name in ("get_page", "get_page_mut", "acquire_with_accessor")}
        gr = {g.id for g in p.fns.values() if g.impl_adt == "tree::bplustree::Btree" and g.name == "get_root"}
        # a callee that, on all of its success paths, asks for the root and latches a page: that is the root latch
        T = (p.must_reach_set(gp) & p.must_reach_set(gr)) - {f.id}
        cx.verdict(bool(gp) and bool(gr) and p.all_success_paths_call(f, T, 0), r4, "scan-pins-root", f.where(), "from_position latches the root on every success path",
                   "BtreePositionalIterator::from_position builds a scan iterator without latching the root in the iterator's accessor: a "
                   "writer can rebalance leaves under a running scan, which then skips or repeats rows")

    # ---- C14.5 worker pool liveness --------------------------------------------------------------------------
    r5 = cx.rule("C14.5", "MPT: JobQueue::push notifies a waiter after queueing; the worker loop runs jobs under "
                 "catch_unwind (C16.1); SharedTaskRunner::{run,run_with_result} send the task's result on every path of the "
                 "job closure and fail (do not hang) when the channel closes; a woken worker re-tests the queue", floor=5)
    fp = cx.guard(r5, "JobQueue::push", p.find_fns, r"JobQueue::<T>::push$")
    if fp:
        f = fp[0]
        nt = {c.bb for c in f.calls() if "Condvar::notify" in c.callee}
        pb = [c for c in f.calls() if c.callee.endswith("::push_back")]
        good = bool(nt) and bool(pb) and not f.success_returns_from(0, blocked=nt) and all(any(f.dominates(x.bb, n) for x in pb) for n in nt)
        cx.verdict(good, r5, "push-notifies", f.where(), "push_back then notify on every path", "a queued job does not wake a worker")
    # a worker woken from the condition variable re-tests the queue under the lock (another worker may have taken the job):
    # what pop_interruptible returns after a wait without going round its loop again is the constant None (shutdown), never the
    # result of a pop - a `None` from a stolen wake-up ends the worker's loop for good and the pool shrinks
    fpi = p.find_fns(r"JobQueue::<T>::pop_interruptible$")
    if not fpi:
        cx.bad(r5, "pop-retests-after-wake", "", "JobQueue::pop_interruptible not found")
    else:
        f = fpi[0]
        from axvlib.core import natural_loops as _nl14
        waits = [c for c in f.calls() if "Condvar::wait" in c.callee]
        lps = [(h, body) for h, body in _nl14(f) if any(c.bb in body for c in waits)]
        good, why = bool(waits) and bool(lps), "no condition-variable wait inside a loop"
        if good:
            h = max(lps, key=lambda x: len(x[1]))[0]
            for w in waits:
                if w.term["to"] is None:
                    continue
                after = f.reachable(w.term["to"], blocked={h})
                for b_ in sorted(after):
                    blk = f.blocks[b_]
                    for st in blk["stmts"]:
                        if st["dst"] == [0] and not (st["rv"].get("r") == "agg" and st["rv"].get("variant") == "None"):
                            good, why = False, "a value other than None is returned straight after the wait"
                    t = blk["term"]
                    if t["t"] == "call" and t.get("dst") == [0]:
                        good, why = False, "the result of %s is returned straight after the wait" % str((t["fn"] or {}).get("def", "a call")).rsplit("::", 1)[-1]
        cx.verdict(good, r5, "pop-retests-after-wake", f.where(), "after a wait only the shutdown None leaves without re-testing the queue",
                   "JobQueue::pop_interruptible: %s: a worker whose job was taken by another worker gets None, leaves its loop and never "
                   "comes back (the pool silently shrinks to one worker)" % why)
    fw = cx.guard(r5, "worker-loop", p.fn, "multithreading::threadpool::Worker::new::{closure#0}")
    if fw:
        cu = [c for c in fw.calls() if c.callee == "std::panic::catch_unwind"]
        cx.verdict(bool(cu), r5, "worker-survives-panic", fw.where(), "jobs run under catch_unwind", "a panicking job kills its worker (D10)")
    # the submitter side, whatever the methods are called and however the submission is factored: (1) every job closure of the
    # runner that reports through a channel sends on every path; (2) a method that waits on the channel reports a closed channel as
    # an error; (3) while it waits no Sender of its own is alive - a worker that panics drops the job and with it the only sender, and
    # that is what wakes the waiting client; a clone kept by the submitter (`submit(task, &tx)`) leaves it blocked forever
    RUNNER = "multithreading::runner::SharedTaskRunner"
    runner_fns = [g for g in K.each_fn(p) if (g.root or g.id).startswith(RUNNER + "::") or g.impl_adt == RUNNER]
    jobs = [g for g in runner_fns if g.kind == "closure" and any(("mpsc::Sender" in c.callee and c.callee.endswith("::send")) for c in g.calls())]
    if not jobs:
        cx.bad(r5, "result-sent:anchor-missing", "", "no job closure of SharedTaskRunner sends a result")
    for g in jobs:
        snd = {c.bb for c in g.calls() if ("mpsc::Sender" in c.callee and c.callee.endswith("::send"))}
        owner = (g.root or g.id).rsplit("::", 1)[-1]
        cx.verdict(not g.success_returns_from(0, blocked=snd), r5, owner + ":result-sent", g.where(),
                   "the result is sent on every path", "a job closure of %s can finish without sending the result: the submitter blocks forever" % owner)
    waiters = [(h, c) for h in runner_fns if h.kind != "closure" for c in h.calls() if ("mpsc::Receiver" in c.callee and c.callee.endswith("::recv"))]
    # a helper that is handed the Receiver and waits on it (`wait_for_outcome(&rx)`): its callers wait there
    recv_helpers = {h.id for h, c in waiters if any("mpsc::Receiver" in h.locals[i] for i in range(1, h.nargs + 1))}
    waiters += [(h, c) for h in runner_fns if h.kind != "closure" for c in h.calls() if c.callee in recv_helpers]
    if len(waiters) < 1:
        cx.bad(r5, "recv:anchor-missing", "", "no SharedTaskRunner method waits on a result channel")
    # (2) is a property of the function that contains the recv, wherever it was factored to
    for h0 in sorted((g for g in p.raw_fns.values() if ((g.root or g.id).startswith(RUNNER + "::") or g.impl_adt == RUNNER) and g.kind != "closure"), key=lambda x: x.id):
        for rc0 in [c for c in h0.calls() if ("mpsc::Receiver" in c.callee and c.callee.endswith("::recv"))][:1]:
            cx.verdict(bool(h0.reachable(rc0.term["to"]) & h0.err_blocks()) if rc0.term.get("to") is not None else False, r5,
                       h0.id.rsplit("::", 1)[-1] + ":recv-error-propagated", h0.where(),
                       "a closed channel is reported as an error", "recv errors are not propagated")
    seen_w = set()
    for h, rc in waiters:
        nm_ = h.id.rsplit("::", 1)[-1]
        if nm_ in seen_w:
            continue
        seen_w.add(nm_)
        # Sender locals still owned when recv is reached: dropped (by scope end) somewhere after the wait
        after = h.reachable(rc.bb)
        late = [bi for bi in after if h.blocks[bi]["term"]["t"] == "drop" and "mpsc::Sender<" in str(h.blocks[bi]["term"].get("ty", ""))
                and not h.blocks[bi].get("cleanup")]
        if late:
            # a Sender moved away earlier (`drop(tx)`, moved into the job) leaves a scope-end drop behind a drop flag that is false by
            # then: only drops that a path through the wait can really reach count
            from axvlib import absint
            try:
                ps_ = absint.PathSearch(p, h)
                late = [bi for bi in late if ps_.find_path(0, {bi}, via={rc.bb}) is not None]
            except absint.TooManyStates:
                pass
        # a loop that receives many results (run_all) owns no sender either: it dropped it explicitly before draining
        cx.verdict(not late, r5, nm_ + ":no-sender-kept-while-waiting", rc.where(), "every Sender was moved into the jobs (or dropped) before the wait",
                   "%s still owns a Sender of the channel it waits on (dropped only after recv): when the job panics on the worker the "
                   "channel never closes and the client that issued the statement blocks forever" % nm_)


    # ---- C14.6 commit order vs snapshot bound (construct shared with C04.6) ------------------------------------
    from . import c04
    cx.include(c04, {"C04.6"}, "C14.6", "shared with C04.6: the persisted last-committed id (the snapshot upper bound) only moves "
               "forward, whatever order concurrent transactions commit in", floor=1)

    # ---- C14.7 id counters are read-modify-written under one guard (construct shared with C09.2b) ----------------
    from . import c09
    cx.include(c09, {"C09.2b"}, "C14.7", "shared with C09.2b: the transaction-id and object-id counters are incremented under the "
               "write guard they were read under; two sessions beginning at the same moment never obtain the same id", floor=2)
