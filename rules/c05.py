"""C05 — query answers match SQL semantics (partly claimed: precedence tables, negation flags, exhaustiveness)."""
from axvlib import core
from axvlib.core import AnchorMissing, op_local, op_const, enum_switches, dominated
from . import common as K

EXPLANATION = (
    "Decides the table-shaped part of SQL semantics: the Pratt binding-power table agrees with the SQL precedence "
    "order (OR < AND < NOT < comparison/IS/LIKE/IN/BETWEEN < additive < multiplicative < unary sign), is left "
    "associative, the loop stops on l_bp < min_bp, prefix operators recurse with a power inside their class window, "
    "the token sets of the power table and of parse_infix are equal; every `negated` flag in the evaluator is "
    "combined with its base predicate by (in)equality and never by a short-circuit; every expression, operator and "
    "function variant has an evaluator arm that does not panic; the optimizer's translation of comparisons into index "
    "range bounds uses the side and inclusiveness the operator means, for both operand orders (C05.6).")
NOT_DECIDED = ("three-valued logic beyond the negation flag, join pairing, aggregates, ORDER BY/LIMIT arithmetic, "
               "affected-row counts (value-level)")
ASSUMPTIONS = ["SQL precedence classes as listed in rules/c05.py"]

PARSER = "sql::parser::Parser"
TOKEN = "sql::parser::lexer::Token"
CLASSES = [
    ("or", {"Or"}),
    ("and", {"And"}),
    ("comparison", {"Eq", "Neq", "Lt", "Gt", "Le", "Ge", "Like", "In", "Between", "Is", "Not"}),
    ("additive", {"Plus", "Minus", "Concat"}),
    ("multiplicative", {"Star", "Slash", "Percent"}),
]


def some_pair_in(f, blocks, prog=None):
    """the (a, b) of `Some((a, b))` built in the region, None-only regions give None"""
    pairs = set()
    none = False
    for bi in blocks:
        for s in f.blocks[bi]["stmts"]:
            rv = s["rv"]
            if prog is not None and rv.get("r") in ("agg", "use"):
                # Some(NAMED_PAIR) / let p = NAMED_PAIR: a named constant of two integers
                for o in rv.get("o") or []:
                    k = op_const(o)
                    c = prog.consts.get(k.get("cdef")) if k and k.get("cdef") else None
                    if c is not None and isinstance(c["v"], list) and len(c["v"]) == 2:
                        pairs.add((c["v"][0], c["v"][1]))
            if rv.get("r") == "agg" and rv.get("akind") == "tuple" and len(rv["o"]) == 2:
                ks = [op_const(o) for o in rv["o"]]
                if all(k is not None and "v" in k for k in ks):
                    pairs.add((ks[0]["v"], ks[1]["v"]))
            if rv.get("r") == "agg" and rv.get("variant") == "None" and s["dst"] == [0]:
                none = True
    return pairs, none


def binding_table(p):
    f = p.method(PARSER, "infix_binding_power")
    sw = [x for x in enum_switches(p, f) if x[1] == TOKEN]
    if not sw:
        raise AnchorMissing("no match on Token in infix_binding_power")
    top = sw[0]
    table = {}
    for tok, tgt in top[2].items():
        pairs, none = some_pair_in(f, dominated(f, tgt), p)
        table[tok] = pairs
    return f, table


def concrete_inclusive(p, f, start, opplace, adt, variant):
    """value (0/1) of the `inclusive` field of the IndexRangeBound built on the path from block `start` when the
    operator at `opplace` is `variant`; None when the walk meets a decision it cannot evaluate"""
    discr = {v["name"]: v["discr"] for v in p.enum_variants(adt)}
    if variant not in discr:
        return None
    proms = f.rec.get("promoted") or []
    known = {}
    b, steps = start, 0
    while steps < 64:
        steps += 1
        blk = f.blocks[b]
        dl = {}
        for st in blk["stmts"]:
            rv = st["rv"]
            if len(st["dst"]) != 1:
                continue
            d = st["dst"][0]
            if rv.get("r") == "discr" and rv["p"] == opplace:
                dl[d] = True
                known[d] = ("discr", discr[variant])
            elif rv.get("r") == "use" and rv["o"]:
                o = rv["o"][0]
                k = o.get("k")
                if k is not None and k.get("ty") == "bool" and "v" in k:
                    known[d] = ("bool", k["v"])
                else:
                    l = op_local(o)
                    if l in known and len((o.get("c") or o.get("m"))) == 1:
                        known[d] = known[l]
                    else:
                        known.pop(d, None)
            elif rv.get("r") == "agg" and str(rv.get("adt", "")).endswith("IndexRangeBound"):
                o = rv["o"][rv["fields"].index("inclusive")]
                k = op_const(o)
                if k is not None:
                    return k.get("v")
                l = op_local(o)
                if l in known and known[l][0] == "bool":
                    return known[l][1]
                return None
            else:
                known.pop(d, None)
        t = blk["term"]
        if t["t"] == "goto":
            b = t["to"]
        elif t["t"] == "switch":
            l = op_local(t["o"])
            if l not in known:
                return None
            val = known[l][1]
            nxt = [tg for v, tg in t["targets"] if v == val]
            b = nxt[0] if nxt else t["otherwise"]
        elif t["t"] == "call":
            c = t
            fnd = c["fn"].get("def") if isinstance(c.get("fn"), dict) else None
            if fnd in ("std::cmp::PartialEq::eq", "std::cmp::PartialEq::ne") and any(adt in g for g in c["fn"].get("gargs", [])):
                # op == CONST: one argument is a promoted constant of the operator enum
                cv = None
                for a in c["args"]:
                    la = op_local(a)
                    for st in blk["stmts"]:
                        if st["dst"] == [la]:
                            for oo in (st["rv"].get("o") or []) if isinstance(st["rv"].get("o"), list) else []:
                                pi = (oo.get("k") or {}).get("promoted")
                                if isinstance(pi, int) and not isinstance(pi, bool) and pi < len(proms) and proms[pi] and proms[pi].get("adt") == adt:
                                    cv = proms[pi]["variant"]
                if cv is None or not c.get("dst"):
                    return None
                eq = (cv == variant)
                known[c["dst"][0]] = ("bool", int(eq if fnd.endswith("::eq") else not eq))
            elif c.get("dst"):
                known.pop(c["dst"][0], None)
            if c.get("to") is None:
                return None
            b = c["to"]
        elif t["t"] in ("drop", "assert"):
            b = t["to"]
        else:
            return None
    return None


def check(cx):
    p = cx.p
    # ---- C05.1 precedence -------------------------------------------------------------------
    r1 = cx.rule("C05.1", "TAB: binding powers follow the SQL precedence classes, r = l + 1 (left associative), the "
                 "Pratt loop breaks on l_bp < min_bp, and each prefix operator recurses with a power inside its "
                 "class window", floor=19 + 4)
    got = cx.guard(r1, "binding-table", binding_table, p)
    lpow = {}
    if got:
        f, table = got
        prev = -1
        for cname, toks in CLASSES:
            ls = set()
            for t in sorted(toks):
                pairs = table.get(t)
                if not pairs:
                    cx.bad(r1, "token:" + t, f.where(), "token %s has no binding power" % t)
                    continue
                good = len(pairs) == 1
                (l, r) = sorted(pairs)[0]
                good = good and r == l + 1
                ls.add(l)
                cx.verdict(good, r1, "token:" + t, f.where(), "(%d,%d) class %s" % (l, r, cname),
                           "token %s has powers %s: not a single left-associative pair (r = l+1)" % (t, sorted(pairs)))
            if ls:
                good = len(ls) == 1 and min(ls) > prev
                cx.verdict(good, r1, "class:" + cname, f.where(), "left power %s > %d" % (sorted(ls), prev),
                           "class %s has left powers %s; must be one value above %d (the class below)" % (cname, sorted(ls), prev))
                lpow[cname] = min(ls)
                prev = max(ls)
        extra = set(table) - set().union(*[t for _, t in CLASSES])
        cx.verdict(not extra, r1, "no-unclassified-token", f.where(), "all %d tokens classified" % len(table),
                   "tokens %s have a binding power but no SQL precedence class in the reference" % sorted(extra))
    # the loop comparator
    # the Pratt loop = the Parser method that calls infix_binding_power inside a loop
    ibp = p.method(PARSER, "infix_binding_power").id
    loops = [g for g in p.fns.values() if g.impl_adt == PARSER and any(
        c.callee == ibp and any(c.bb in body for _, body in core.natural_loops(g)) for c in g.calls())]
    fb = loops[0] if len(loops) == 1 else None
    if fb is None:
        cx.bad(r1, "loop-break:anchor-missing", "", "expected exactly one Parser method calling infix_binding_power in a loop, found %d" % len(loops))
    if fb:
        cmps = [(bi, s) for bi, b in enumerate(fb.blocks) for s in b["stmts"]
                if s["rv"].get("r") == "bin" and s["rv"]["op"] in ("Lt", "Le", "Gt", "Ge")]
        good = False
        why = "no comparison with min_bp"
        for bi, s in cmps:
            a, b2 = s["rv"]["o"]
            la, lb = op_local(a), op_local(b2)
            if lb is not None and (lb == 2 or 2 in fb.dep_closure(lb)) and la is not None and 2 not in fb.dep_closure(la):
                good = s["rv"]["op"] == "Lt"
                why = "%s(l_bp, min_bp)" % s["rv"]["op"]
            elif la is not None and (la == 2 or 2 in fb.dep_closure(la)) and lb is not None:
                good = s["rv"]["op"] == "Gt"
                why = "%s(min_bp, l_bp)" % s["rv"]["op"]
        cx.verdict(good, r1, "loop-break", fb.where(), why,
                   "the Pratt loop compares with %s; only `l_bp < min_bp` keeps operators of equal power left associative" % why)
    # prefix arms
    fp = cx.guard(r1, "parse_prefix", p.method, PARSER, "parse_prefix")
    if fp and lpow:
        sw = [x for x in enum_switches(p, fp) if x[1] == TOKEN]
        arms = sw[0][2] if sw else {}
        bp = p.method(PARSER, "parse_expr_bp").id
        windows = {"Not": (lpow.get("and", 0), lpow.get("comparison", 0), "AND < min_bp <= comparison"),
                   "Plus": (lpow.get("additive", 0), 255, "additive < min_bp"),
                   "Minus": (lpow.get("additive", 0), 255, "additive < min_bp")}
        for tok, (lo, hi, txt) in windows.items():
            if tok not in arms:
                cx.bad(r1, "prefix:" + tok, fp.where(), "no prefix arm for " + tok)
                continue
            reg = dominated(fp, arms[tok])
            vals = set()
            for c in fp.calls():
                if c.bb in reg and c.callee == bp:
                    k = op_const(c.args[1])
                    vals.add(k.get("v") if k else None)
            good = bool(vals) and all(v is not None and lo < v <= hi for v in vals)
            cx.verdict(good, r1, "prefix:" + tok, fp.where(), "min_bp %s within (%d, %d]" % (sorted(vals), lo, hi),
                       "prefix %s recurses with min_bp %s; SQL needs %s, i.e. (%d, %d]" % (tok, sorted(x for x in vals if x is not None), txt, lo, hi))

    # ---- C05.2 infix coverage ------------------------------------------------------------------
    r2 = cx.rule("C05.2", "TAB: every token with a binding power has an arm in parse_infix and vice versa", floor=1)
    fi = cx.guard(r2, "parse_infix", p.method, PARSER, "parse_infix")
    if fi and got:
        sw = [x for x in enum_switches(p, fi) if x[1] == TOKEN]
        # every match on the token: nested matches of parse_infix itself and, on the inlined view, the matches of a lookup
        # helper on its token parameter (not the matches of the sub-parsers on what they read next)
        org = getattr(fi, "origins", None)

        def dispatch(x):
            if org is None or org[x[0]][0] == fi.id:
                return True
            _, lb, n = org[x[0]]
            return lb < x[4][0] <= lb + n and all(pe == "*" for pe in x[4][1:])
        inf = set().union(*[set(x[2]) for x in sw if dispatch(x)]) if sw else set()
        have = {t for t, pr in got[1].items() if pr}
        cx.verdict(inf == have, r2, "token-sets-equal", fi.where(), "%d tokens on both sides" % len(have),
                   "binding powers for %s without parse_infix arm; parse_infix arms for %s without power" % (
                       sorted(have - inf), sorted(inf - have)))

    # ---- C05.3 negation flags ---------------------------------------------------------------------
    r3 = cx.rule("C05.3", "FLOW: every `negated` flag in runtime::eval is combined with its base predicate by "
                 "!=, == or ^ (or tested by an if); copying it into the result (what `x || negated` / `!negated && x` "
                 "compile to) makes the predicate constant in one polarity", floor=4)
    n_sites = 0
    for f in p.fns.values():
        if not f.id.startswith("runtime::eval::"):
            continue
        places = f.named_locals("negated")
        for pl in places:
            base = pl[0]
            # all locals holding (a copy of) the flag value or a reference to it
            holders = {base}
            changed = True
            while changed:
                changed = False
                for b in f.blocks:
                    for s in b["stmts"]:
                        rv = s["rv"]
                        if rv.get("r") == "use":
                            l = op_local(rv["o"][0])
                            if l in holders and s["dst"][0] not in holders and len(s["dst"]) == 1 \
                                    and f.locals[s["dst"][0]] in ("bool", "&bool"):
                                holders.add(s["dst"][0])
                                changed = True
            combined, escaped, forwarded, tested = [], [], [], []
            for bi, b in enumerate(f.blocks):
                for s in b["stmts"]:
                    rv = s["rv"]
                    ols = [op_local(o) for o in rv.get("o", [])] if isinstance(rv.get("o"), list) else []
                    if not any(l in holders for l in ols):
                        continue
                    if rv.get("r") == "bin" and rv["op"] in ("Ne", "Eq", "BitXor"):
                        combined.append(s["l"])
                    elif rv.get("r") == "un" and rv["op"] == "Not":
                        # `!negated` — fine only if the result is then tested or compared; track as holder
                        if s["dst"][0] not in holders:
                            holders.add(s["dst"][0])
                    elif rv.get("r") == "use":
                        d = s["dst"][0]
                        if d not in holders:
                            escaped.append(s["l"])  # the flag itself becomes (part of) a result
                    elif rv.get("r") in ("agg", "cast"):
                        escaped.append(s["l"])
                t = b["term"]
                if t["t"] == "switch" and op_local(t["o"]) in holders:
                    # `if negated { !x } else { x }` is fine; `!negated && x` is a switch one arm of which
                    # stores a *constant* into the join local (the base predicate is ignored in that polarity)
                    arms = set([x[1] for x in t["targets"]] + [t["otherwise"]])
                    const_arm = False
                    for a in arms:
                        ab = f.blocks[a]
                        if ab["term"]["t"] == "goto" and len(ab["stmts"]) >= 1:
                            st = ab["stmts"][-1]
                            k = op_const(st["rv"]["o"][0]) if st["rv"].get("r") == "use" else None
                            if k is not None and k.get("ty") == "bool" and f.locals[st["dst"][0]] == "bool":
                                const_arm = True
                    if const_arm:
                        tested.append(t.get("l", 0))
                    else:
                        combined.append(t.get("l", 0))
                if t["t"] == "call":
                    for o in t["args"]:
                        if op_local(o) in holders:
                            forwarded.append(t["fn"].get("res") or t["fn"].get("def"))
            if not (combined or escaped or tested or forwarded):
                continue
            n_sites += 1
            # `!negated && x` = switch on !negated with a constant-false arm: a test whose one arm ignores x.
            # a switch on the flag is accepted only when both arms evaluate the base predicate; in this
            # code base no arm uses `if negated`, so a switch on the flag is the short-circuit shape.
            good = bool(combined or forwarded) and not escaped and not tested
            key = "%s:%s" % (f.id, pl if len(pl) > 1 else "_%d" % base)
            cx.verdict(good, r3, key, f.where(),
                       "combined by %s at line(s) %s%s" % ("==/!=", combined, (", forwarded to %s" % forwarded) if forwarded else ""),
                       "the negation flag is %s (lines %s): NOT <pred> is constant in one polarity" % (
                           "copied into the result" if escaped else "used as a short-circuit operand", escaped or tested))

    # ---- C05.4 exhaustiveness ------------------------------------------------------------------------
    r4 = cx.rule("C05.4", "TAB: every BoundExpression / BinaryOperator / UnaryOperator / ScalarFunction / "
                 "AggregateFunction variant has an evaluator arm that can return (no arm ends in todo!/unreachable!)",
                 floor=14 + 20 + 3 + 15 + 5)
    EV = "runtime::eval::ExpressionEvaluator"
    targets = [
        (EV, "evaluate", "sql::binder::bounds::BoundExpression"),
        (EV, "eval_binary_op", "sql::parser::ast::BinaryOperator"),
        (EV, "eval_unary_op", "sql::parser::ast::UnaryOperator"),
        (EV, "evaluate", "sql::binder::bounds::ScalarFunction"),
        ("runtime::ops::aggregate::Accumulator", "new", "sql::binder::bounds::AggregateFunction"),
    ]
    for adt, name, enum in targets:
        f = cx.guard(r4, "%s::%s" % (adt, name), p.method, adt, name)
        if not f:
            continue
        # the dispatch is in the entry point or in a method of the same type it reaches (evaluate -> eval_scalar_function)
        cands = [f] + [g for g in (p.raw_fns.get(x) for x in sorted(p.reach_forward([f.id]))) if g is not None and g.id != f.id
                       and g.impl_adt == f.impl_adt and g.kind != "closure"]
        sws = [(x, g) for g in cands for x in enum_switches(p, g) if x[1] == enum]
        if not sws:
            cx.bad(r4, "%s:%s:no-match" % (name, enum), f.where(), "no match on %s in %s" % (enum, f.id))
            continue
        # the widest switch is the dispatch
        (bi, _, m, oth, _), f = max(sws, key=lambda x: (len(x[0][2]), x[1] is f))
        for v in p.enum_variants(enum):
            t = m.get(v["name"], oth)
            pan = core.diverges(f, t)
            cx.verdict(not pan, r4, "%s:%s" % (name, v["name"]), f.where(),
                       "arm bb%d returns" % t,
                       "the %s arm of %s ends in a panic (todo!/unreachable!): a statement using it kills the "
                       "statement with an internal error (D13)" % (v["name"], f.id))

    # ---- C05.5 (construct shared with C06.4) -----------------------------------------------------------------
    from . import c06
    cx.include(c06, {"C06.4"}, "C05.5", "shared with C06.4: join reordering and filter pushdown are applied to inner/cross joins only "
               "(outer-join rows must be NULL-extended before WHERE predicates on the inner side are evaluated)", floor=3)

    # ---- C05.6 index range bounds follow the comparison operators --------------------------------------------
    r6 = cx.rule("C05.6", "TAB: in FilterToIndexScanRule::collect_bounds each comparison arm that turns `column op literal` "
                 "(or `literal op column`) into an index bound pushes onto the side and with the inclusiveness the operator "
                 "means: = start&end inclusive; col>lit / lit<col start exclusive; col>=lit / lit<=col start inclusive; "
                 "col<lit / lit>col end exclusive; col<=lit / lit>=col end inclusive; every other operator reaches the "
                 "residual predicate; the bound value is the literal as written (never cast to the column type)", floor=13)
    CB = "sql::planner::rules::FilterToIndexScanRule::collect_bounds"
    f = cx.guard(r6, "collect_bounds", p.fn, CB)
    if f:
        # parameters: self, index_id, expr, indexed_columns, range_start, range_end, residual
        pn = {}
        for k, v in f.names.items():
            if isinstance(v, list) and len(v) == 1 and v[0] <= f.nargs:
                pn[k.split("#")[0]] = v[0]
        START, END, RES = pn.get("range_start"), pn.get("range_end"), pn.get("residual")
        if None in (START, END, RES):
            # positional fallback (a renamed parameter is not a violation)
            START, END, RES = 5, 6, 7
        side_refs = {}
        for b in f.blocks:
            for st in b["stmts"]:
                if st["rv"].get("r") == "ref" and len(st["dst"]) == 1:
                    for pe in st["rv"]["p"][1:]:
                        if isinstance(pe, str) and pe.startswith(".left:"):
                            side_refs[st["dst"][0]] = "left"
                        if isinstance(pe, str) and pe.startswith(".right:"):
                            side_refs[st["dst"][0]] = "right"
        eci = [c for c in f.calls() if c.callee.endswith("::extract_column_info")]
        pushes = [c for c in f.calls() if c.callee.endswith("Vec::<T, A>::push")]

        def push_target(c):
            d = {x[1] for x in f.nearest_calls(op_local(c.args[0])) if x[0] == "param"}   # the reborrowed parameter
            hit = [n for n, l in (("start", START), ("end", END), ("residual", RES)) if l in d]
            return hit[0] if len(hit) == 1 else None

        WANT = {
            "left": {"Eq": ({"start", "end"}, {1}), "Gt": ({"start"}, {0}), "Ge": ({"start"}, {1}), "Lt": ({"end"}, {0}), "Le": ({"end"}, {1})},
            # literal on the left: the operator is mirrored
            "right": {"Eq": ({"start", "end"}, {1}), "Lt": ({"start"}, {0}), "Le": ({"start"}, {1}), "Gt": ({"end"}, {0}), "Ge": ({"end"}, {1})},
        }
        seen_sides = set()
        BINOP = "sql::parser::ast::BinaryOperator"
        arms_found = [x for x in enum_switches(p, f) if x[1] == BINOP and len(x[2]) >= 2 and any(f.dominates(c.bb, x[0]) for c in eci)]
        if arms_found and not getattr(f, "inlined", None):
            for bi, adt, m, oth, src in enum_switches(p, f):
                if adt != "sql::parser::ast::BinaryOperator" or len(m) < 2:
                    continue
                dom = [c for c in eci if f.dominates(c.bb, bi)]
                if not dom:
                    continue
                last = max(dom, key=lambda c: sum(1 for d_ in dom if f.dominates(d_.bb, c.bb)))
                sides = {side_refs[l] for l in f.dep_closure(op_local(last.args[0])) if l in side_refs}
                if len(sides) != 1:
                    cx.bad(r6, "side-unknown@%s" % sorted(m), last.where(), "cannot tell which operand is the column")
                    continue
                side = sides.pop()
                seen_sides.add(side)
                for var in ("Eq", "Lt", "Le", "Gt", "Ge"):
                    key = "%s:%s" % ("col-op-lit" if side == "left" else "lit-op-col", var)
                    if var not in m:
                        # not used as a bound: must reach the residual push (sound, merely slower)
                        reach = f.reachable(oth)
                        cx.verdict(any(push_target(c) == "residual" and c.bb in reach for c in pushes), r6, key, f.where(),
                                   "kept as residual predicate", "operator %s is neither a bound nor kept as residual" % var)
                        continue
                    reg = dominated(f, m[var])
                    vecs = {push_target(c) for c in pushes if c.bb in reg}
                    incl = set()
                    for b_ in reg:
                        for st in f.blocks[b_]["stmts"]:
                            rv = st["rv"]
                            if rv.get("r") == "agg" and str(rv.get("adt", "")).endswith("IndexRangeBound"):
                                i = rv["fields"].index("inclusive")
                                k = op_const(rv["o"][i])
                                incl.add(k.get("v") if k else "non-constant")
                    wv, wi = WANT[side][var]
                    if "non-constant" in incl:
                        # `inclusive: matches!(op, X)` / `*op == X` in an arm shared by several operators: evaluate it
                        # for this operator by walking the arm with the operator's discriminant known
                        v_ = concrete_inclusive(p, f, m[var], src, adt, var)
                        if v_ is not None:
                            incl = (incl - {"non-constant"}) | {v_}
                    if "non-constant" in incl and vecs == wv:
                        # inclusiveness computed at run time (e.g. arms merged with `inclusive: op == Ge`): not a table entry
                        cx.advisory(r6, key, f.where(), "the `%s` arm computes `inclusive` at run time: side checked (%s), inclusiveness not decided" % (var, sorted(vecs)))
                        continue
                    cx.verdict(vecs == wv and incl == wi, r6, key, f.where(), "pushes %s, inclusive=%s" % (sorted(vecs), sorted(incl)),
                               "the `%s` arm for %s pushes onto %s with inclusive=%s, the operator means %s with inclusive=%s: the "
                               "index scan returns a different row set than the filter it replaces (boundary row lost or added)" % (
                                   var, "column-op-literal" if side == "left" else "literal-op-column", sorted(str(x) for x in vecs),
                                   sorted(str(x) for x in incl), sorted(wv), sorted(wi)))
                # operators without an arm fall through to the residual
                reach = f.reachable(oth)
                cx.verdict(any(push_target(c) == "residual" and c.bb in reach for c in pushes), r6,
                           "%s:other-operators" % ("col-op-lit" if side == "left" else "lit-op-col"), f.where(),
                           "other operators reach residual.push", "operators without a bound arm are dropped instead of being kept as residual")
        else:
            # the table is not a match in collect_bounds itself (operator classified by a helper, bound pushed by another, an
            # intermediate enum in between ...): evaluate it. For each operator the function is walked with that operator as the
            # known value of every BinaryOperator place (axvlib.absint: only branches decided by known constants are pruned), and
            # the pushes that remain feasible are collected per operand order with the `inclusive` constant of the pushed bound.
            from axvlib import absint

            def side_of(c):
                dom = [e for e in eci if f.dominates(e.bb, c.bb)]
                if not dom:
                    return None
                last = max(dom, key=lambda e: sum(1 for d_ in dom if f.dominates(d_.bb, e.bb)))
                sd = {side_refs[l] for l in (f.dep_closure(op_local(last.args[0])) | {op_local(last.args[0])}) if l in side_refs}
                return sd.pop() if len(sd) == 1 else None
            ptarget = {c.bb: push_target(c) for c in pushes}
            pside = {c.bb: side_of(c) for c in pushes}
            pcall = {c.bb: c for c in pushes}
            undecided = None
            table = {}
            for v in [x["name"] for x in p.enum_variants(BINOP)]:
                def hook(fn_, place, v=v):
                    if len(place) < 2:
                        return None
                    ty = core.place_type(p, fn_, place)
                    if ty is not None and core.strip_ref(ty) == BINOP and not ty.startswith("&"):
                        return ("agg", BINOP, v, ())
                    return None
                ps = absint.PathSearch(p, f, place_hook=hook)
                ev = set()

                def on_state(b_, env, ps=ps, ev=ev):
                    if b_ in pcall and ptarget[b_] in ("start", "end"):
                        val = ps.operand(env, pcall[b_].args[1])
                        inc = dict(val[3]).get("inclusive") if val is not None and val[0] == "agg" else None
                        ev.add((pside[b_], ptarget[b_], inc[1] if inc is not None and inc[0] == "k" else "non-constant"))
                    elif b_ in pcall and ptarget[b_] == "residual":
                        ev.add((None, "residual", None))
                try:
                    ps.explore(0, on_state=on_state)
                except absint.TooManyStates as e:
                    undecided = str(e)
                    break
                table[v] = ev
            if undecided:
                cx.advisory(r6, "table", f.where(), "index-bound table not evaluated (%s): clause not decided for this run" % undecided)
                seen_sides = {"left", "right"}
            else:
                for side in ("left", "right"):
                    for var in sorted(table):
                        got = {(t_, i_) for s_, t_, i_ in table[var] if s_ == side}
                        unk = {(t_, i_) for s_, t_, i_ in table[var] if s_ is None and t_ != "residual"}
                        if got:
                            seen_sides.add(side)
                        key = "%s:%s" % ("col-op-lit" if side == "left" else "lit-op-col", var)
                        if unk:
                            cx.bad(r6, "side-unknown@" + var, f.where(), "cannot tell which operand is the column for a bound pushed under %s" % var)
                            continue
                        if var in WANT[side]:
                            wv, wi = WANT[side][var]
                            vecs = {t_ for t_, _ in got}
                            incl = {i_ for _, i_ in got}
                            if "non-constant" in incl and vecs == wv:
                                cx.advisory(r6, key, f.where(), "the bound pushed for `%s` computes `inclusive` at run time: side checked (%s), inclusiveness not decided" % (var, sorted(vecs)))
                                continue
                            cx.verdict(vecs == wv and incl == wi, r6, key, f.where(), "pushes %s, inclusive=%s" % (sorted(vecs), sorted(incl)),
                                       "under %s (%s) the function pushes onto %s with inclusive=%s, the operator means %s with inclusive=%s: the "
                                       "index scan returns a different row set than the filter it replaces (boundary row lost or added)" % (
                                           var, "column-op-literal" if side == "left" else "literal-op-column", sorted(str(x) for x in vecs),
                                           sorted(str(x) for x in incl), sorted(wv), sorted(wi)))
                        elif got:
                            cx.bad(r6, key, f.where(), "operator %s is turned into an index bound (%s): the index scan answers a different predicate" % (var, sorted(map(str, got))))
                    others = [var for var in table if var not in WANT[side]]
                    kept = all(any(t_ == "residual" for _, t_, _ in table[var]) for var in others)
                    cx.verdict(kept, r6, "%s:other-operators" % ("col-op-lit" if side == "left" else "lit-op-col"), f.where(),
                               "other operators reach residual.push", "operators without a bound arm are dropped instead of being kept as residual")
        # the bound carries the literal as written: DataType::try_cast truncates (DOUBLE 2.5 -> INT 2), so a literal that is
        # cast to the column type turns `v < 2.5` into `v < 2` with no residual to re-check
        fam = [g for g in p.fns.values() if g.impl_adt == "sql::planner::rules::FilterToIndexScanRule" or (g.root or "").startswith("sql::planner::rules::FilterToIndexScanRule::")]
        casts = sorted({"%s in %s" % (c.callee.rsplit("::", 1)[-1], g.id.rsplit("::", 1)[-1]) for g in fam for c in g.calls()
                        if c.callee.rsplit("::", 1)[-1] in ("try_cast", "cast", "try_cast_to") and ("types::" in c.callee or "TypeCast" in c.callee)})
        cx.verdict(not casts, r6, "bound-is-the-literal", f.where(), "no cast between the literal and the bound (%d functions)" % len(fam),
                   "the index-bound extraction casts the literal (%s): a fractional or out-of-range constant is truncated to the column "
                   "type and the index scan answers a different predicate than the filter it replaces" % ", ".join(casts))
        if seen_sides != {"left", "right"}:
            cx.bad(r6, "sides", f.where(), "expected one operator table per operand order, found %s" % sorted(seen_sides))

    # ---- C05.7 three-valued logic: predicate arms can answer NULL ---------------------------------------------------
    r7 = cx.rule("C05.7", "TAB/FLOW: every evaluator arm that decides a predicate from operand values (BinaryOp, UnaryOp, BETWEEN, "
                 "IN-list) can answer NULL for a NULL operand: the arm tests an evaluated operand for NULL and builds DataType::Null, "
                 "or delegates to an evaluator helper that does (eval_binary_op / eval_unary_op / logical_and / logical_or)", floor=4)
    EV = "runtime::eval::ExpressionEvaluator::<'a>::"
    fev = cx.guard(r7, "evaluate", p.fn, EV + "evaluate")
    if fev:
        def null_aggs(g, blocks=None):
            return [bi for bi, b in enumerate(g.blocks) if (blocks is None or bi in blocks) for st in b["stmts"]
                    if st["rv"].get("r") == "agg" and st["rv"].get("adt") == "types::DataType" and st["rv"].get("variant") == "Null"]

        def null_tests(g, blocks=None):
            out = [bi for bi, adt, m, oth, src in enum_switches(p, g) if adt == "types::DataType" and "Null" in m and (blocks is None or bi in blocks)]
            out += [c.bb for c in g.calls() if c.callee.endswith("::is_null") and (blocks is None or c.bb in blocks)]
            return out
        methods = [g for g in p.fns.values() if g.impl_adt == "runtime::eval::ExpressionEvaluator" and not g.name.startswith("evaluate")]
        helpers = {g.id for g in methods if null_aggs(g) and null_tests(g)}
        # ... or that hand the NULL case to such a helper (`null_operand_result(lhs, rhs, op)` extracted from eval_binary_op)
        changed = True
        while changed:
            changed = False
            for g in methods:
                if g.id not in helpers and any(c.callee in helpers for c in g.calls()):
                    helpers.add(g.id)
                    changed = True
        sws = [x for x in enum_switches(p, fev) if x[1].endswith("BoundExpression")]
        if not sws:
            cx.bad(r7, "no-match", fev.where(), "evaluate does not match on BoundExpression")
        else:
            bi, adt, m, oth, _ = max(sws, key=lambda x: len(x[2]))
            for var in ("BinaryOp", "UnaryOp", "Between", "InList"):
                if var not in m:
                    cx.bad(r7, var, fev.where(), "no evaluator arm for %s" % var)
                    continue
                reg = dominated(fev, m[var])
                own = bool(null_aggs(fev, reg)) and bool(null_tests(fev, reg))
                via = sorted({c.callee.rsplit("::", 1)[-1] for c in fev.calls() if c.bb in reg and c.callee in helpers})
                cx.verdict(own or bool(via), r7, var, fev.where(), "answers NULL %s" % ("itself" if own else "through " + ", ".join(via)),
                           "the %s arm of the evaluator never tests an operand for NULL and never answers NULL: with a NULL operand "
                           "the negated form (NOT BETWEEN / NOT IN) is TRUE instead of NULL and the row is returned" % var)

    # ---- C05.8 aggregates ignore NULL; COUNT(*) counts rows ------------------------------------------------------------
    r8 = cx.rule("C05.8", "FLOW: in Accumulator::accumulate the NULL arm of the value test returns without touching the accumulator, "
                 "for every accumulator kind (COUNT(col) does not count NULLs); the aggregate executor never feeds a constant "
                 "NULL into accumulate (COUNT(*) counts rows by another route)", floor=2)
    ACC = "runtime::ops::aggregate::Accumulator::accumulate"
    fa = cx.guard(r8, "accumulate", p.fn, ACC)
    if fa:
        tests = [(bi, m, oth) for bi, adt, m, oth, src in enum_switches(p, fa) if adt == "types::DataType" and "Null" in m and src[0] == 2]
        if not tests:
            cx.bad(r8, "null-skipped", fa.where(), "accumulate does not test its value for NULL")
        else:
            bi, m, oth = tests[0]
            reach = fa.reachable_threaded(m["Null"])
            touched = []
            for b_ in sorted(reach):
                for st in fa.blocks[b_]["stmts"]:
                    d = st["dst"]
                    if d[0] == 1 and len(d) > 1 and not fa.blocks[b_]["cleanup"]:
                        touched.append(b_)
                    elif len(d) > 1 and d[1] == "*" and 1 in fa.dep_closure(d[0]) and not fa.blocks[b_]["cleanup"] and \
                            any(isinstance(pe, str) and ":runtime::ops::aggregate::Accumulator" in pe for pe in d[1:]):
                        touched.append(b_)
            # writes through the variant bindings (`*count += 1`): bindings are refs into (*self as Variant).field
            binds = {st["dst"][0] for b in fa.blocks for st in b["stmts"] if st["rv"].get("r") == "ref" and st["rv"].get("mut")
                     and st["rv"]["p"][0] == 1 and len(st["dst"]) == 1}
            for b_ in sorted(reach):
                for st in fa.blocks[b_]["stmts"]:
                    if len(st["dst"]) > 1 and st["dst"][0] in binds and st["dst"][1] == "*":
                        touched.append(b_)
            cx.verdict(not touched, r8, "null-skipped", fa.where(), "a NULL value leaves every accumulator untouched",
                       "a NULL value still reaches an accumulator update (bb%s): COUNT(col) counts rows whose col is NULL" % sorted(set(touched))[:3])
    frow = [g for g in p.fns.values() if g.name == "accumulate_row" and "aggregate::HashAggregate" in g.id and not g.root]
    if not frow:
        cx.bad(r8, "no-constant-null", "", "HashAggregate::accumulate_row not found")
    else:
        g = frow[0]
        consts = {st["dst"][0] for b in g.blocks for st in b["stmts"] if st["rv"].get("r") == "agg"
                  and st["rv"].get("adt") == "types::DataType" and st["rv"].get("variant") == "Null" and len(st["dst"]) == 1}
        fed = []
        for c in g.calls():
            if c.callee == ACC and len(c.args) > 1:
                l = op_local(c.args[1])
                if l is not None and consts & (g.dep_closure(l) | {l}):
                    fed.append(c)
        cx.verdict(not fed, r8, "no-constant-null", g.where(), "no constant NULL is accumulated",
                   "accumulate_row feeds a constant NULL into Accumulator::accumulate (the COUNT(*) marker): either COUNT(*) "
                   "stays at 0 or, if NULLs are counted for its sake, COUNT(col) counts NULLs")

    # ---- C05.9 a NULL join key matches nothing and stalls nothing ----------------------------------------------------------
    r9 = cx.rule("C05.9", "TAB: in MergeJoin::compare_keys a NULL key on one side returns the ordering whose arm in MergeJoin::next "
                 "advances that same side (the row with the NULL is stepped over; answering the other ordering drains the other "
                 "input and the join loses every later match); keys_match answers false for NULL on either side; both compare every "
                 "column of a composite key (the column comparison sits in a loop)", floor=5)
    fck = [g for g in p.fns.values() if g.name == "compare_keys" and "join::MergeJoin" in g.id and not g.root]
    fnx = [g for g in p.fns.values() if g.name == "next" and "join::MergeJoin" in g.id and not g.root]
    if not fck or not fnx:
        cx.bad(r9, "anchor-missing", "", "MergeJoin::compare_keys / next not found")
    else:
        fck, fnx = fck[0], fnx[0]
        # which side does each ordering advance
        adv = {}
        for bi, adt, m, oth, src in enum_switches(p, fnx):
            if adt != "std::cmp::Ordering":
                continue
            prod = [c for c in fnx.calls() if c.callee == fck.id and c.dst and c.dst[0] == src[0]]
            if not prod:
                continue
            for var, tgt in m.items():
                reg = dominated(fnx, tgt)
                sides = {c.callee.rsplit("::", 1)[-1] for c in fnx.calls() if c.bb in reg and c.callee.rsplit("::", 1)[-1] in ("advance_left", "advance_right")}
                adv[var] = sides
        side_of = {}
        for var, sides in adv.items():
            if sides == {"advance_left"}:
                side_of["left"] = var
            if sides == {"advance_right"}:
                side_of["right"] = var
        if set(side_of) != {"left", "right"}:
            cx.bad(r9, "advance-table", fnx.where(), "cannot derive which ordering advances which input (%s)" % adv)
        else:
            # zip(left_keys, right_keys): tuple field 0 / 1 of the iterator item
            for bi, adt, m, oth, src in enum_switches(p, fck):
                if adt != "types::DataType" or "Null" not in m:
                    continue
                fld = None
                for b in fck.blocks:
                    for st in b["stmts"]:
                        if st["dst"] == [src[0]] and st["rv"].get("r") == "use":
                            pl = st["rv"]["o"][0].get("c") or st["rv"]["o"][0].get("m") or []
                            for pe in pl[1:]:
                                if isinstance(pe, str) and pe.startswith(".0"):
                                    fld = "left"
                                if isinstance(pe, str) and pe.startswith(".1"):
                                    fld = "right"
                if fld is None:
                    cx.bad(r9, "null-key:operand-unknown", fck.where(), "cannot tell which side's key is tested for NULL")
                    continue
                # orderings returned from the Null arm before any other decision
                got = set()
                seen_b, work = set(), [m["Null"]]
                while work:
                    u = work.pop()
                    if u in seen_b:
                        continue
                    seen_b.add(u)
                    hit = [st["rv"]["variant"] for st in fck.blocks[u]["stmts"] if st["dst"] == [0] and st["rv"].get("r") == "agg"]
                    if hit:
                        got.add(hit[-1])
                        continue
                    t = fck.blocks[u]["term"]
                    if t["t"] == "switch" and u != m["Null"]:
                        # a further decision (e.g. `|| r is NULL`): follow both arms
                        pass
                    for v in fck.succ_threaded(u):
                        if isinstance(v, tuple):
                            v = v[2]
                        if not fck.blocks[v]["cleanup"]:
                            work.append(v)
                want = side_of[fld]
                cx.verdict(got == {want}, r9, "null-key:%s" % fld, fck.where(), "NULL on the %s answers %s (advances the %s input)" % (fld, want, fld),
                           "a NULL key on the %s makes compare_keys answer %s, but only %s advances the %s input: the other input is "
                           "drained past its matches and an inner equi-join with one NULL key returns no rows" % (fld, sorted(got), want, fld))
    # composite keys: the comparison of one key column sits in a loop that can go round again (a function that
    # answers after the first column pairs rows on a prefix of the join key)
    from axvlib.core import natural_loops as _nl
    for g_, nm_ in ((fck if not isinstance(fck, list) else None, "compare_keys"), (p.fns.get("runtime::ops::join::keys_match"), "keys_match")):
        if g_ is None:
            continue
        cmpc = [c for c in g_.calls() if c.defn in ("std::cmp::PartialOrd::partial_cmp", "std::cmp::PartialEq::eq", "std::cmp::PartialEq::ne",
                                                     "std::cmp::Ord::cmp") and any("DataType" in a for a in c.gargs)]
        loops_ = _nl(g_)
        inloop = [c for c in cmpc if any(c.bb in body for h, body in loops_)]
        cx.verdict(bool(cmpc) and len(inloop) == len(cmpc), r9, "all-key-columns:" + nm_, g_.where(), "key columns are compared inside a loop over the key",
                   "%s answers after comparing one key column (the comparison is not inside a loop that continues with the next column): "
                   "rows are paired on a prefix of a composite join key" % nm_)
    km = p.fns.get("runtime::ops::join::keys_match")
    if km is None:
        cx.bad(r9, "keys_match", "", "keys_match not found")
    else:
        nt = [(bi, m) for bi, adt, m, oth, src in enum_switches(p, km) if adt == "types::DataType" and "Null" in m]
        good = len(nt) >= 2
        for bi, m in nt:
            # from the Null arm the function returns false without comparing
            reach = km.reachable_threaded(m["Null"])
            cmps = [c for c in km.calls() if c.bb in reach and c.defn in ("std::cmp::PartialEq::eq", "std::cmp::PartialEq::ne")]
            good = good and not cmps
        cx.verdict(good, r9, "keys_match", km.where(), "NULL on either side: no match, no comparison",
                   "keys_match compares a NULL key (NULL = NULL would pair rows in hash and merge joins)")

    # ---- C05.10 (construct shared with C06.10) ---------------------------------------------------------------------
    cx.include(c06, {"C06.10"}, "C05.10", "shared with C06.10: a merge join gets its inputs sorted on every key column (the ordering check "
               "accepts no prefix); otherwise a join on a composite key pairs fewer rows than SQL prescribes", floor=1)

    # ---- C05.11 (construct shared with C19.1) ---------------------------------------------------------------------------
    from . import c19
    cx.include(c19, {"C19.1"}, "C05.11", "shared with C19.1: IN-lists, DISTINCT, GROUP BY and hash joins look values up by hash; equal values (Int 1 and "
               "Double 1.0) must hash equally or `d IN (1, 3)` misses rows that `d = 1 OR d = 3` returns", floor=8)

    # ---- C05.12 a join is an equi-join only if every conjunct of its ON condition is a key equality -------------------------
    r12 = cx.rule("C05.12", "FLOW: in JoinOp::is_equi_condition the AND arm answers true only after both sides were asked: on the path where the "
                  "first recursive call answered true, the second call is made on every path to the return. (Hash and merge joins are "
                  "built from the extracted key equalities with no residual condition, so a conjunction that counts as an equi-join although "
                  "one side is not a key equality loses that side.)", floor=1)
    fq = cx.guard(r12, "is_equi_condition", p.fn, "sql::planner::logical::JoinOp::is_equi_condition")
    if fq:
        sws = [x for x in enum_switches(p, fq) if x[1].endswith("BinaryOperator") and "And" in x[2]]
        if not sws:
            cx.bad(r12, "and-arm", fq.where(), "is_equi_condition has no arm for AND")
        else:
            bi, adt, m, oth, _ = sws[0]
            reg = dominated(fq, m["And"])
            rec = sorted([c for c in fq.calls() if c.callee == fq.id and c.bb in reg], key=lambda c: c.bb)
            first = [c for c in rec if all(fq.dominates(c.bb, d.bb) for d in rec)]
            good = len(rec) >= 2 and bool(first)
            why = "fewer than two recursive calls in the AND arm"
            if good:
                c1 = first[0]
                others = {c.bb for c in rec if c is not c1}
                tb = fq.blocks[c1.term["to"]]["term"]
                if tb["t"] == "switch" and op_local(tb["o"]) == c1.dst[0] and tb.get("ty") == "bool":
                    true_arm = tb["otherwise"]
                    rets = [x for x in range(len(fq.blocks)) if fq.blocks[x]["term"]["t"] == "ret"]
                    leak = fq.reachable(true_arm, blocked=others) & set(rets)
                    good = not leak
                    why = "the first side answering true is enough"
                else:
                    # the result of the first call is combined without a branch (e.g. `a & b`): both calls are made
                    good = all(fq.dominates(c1.bb, d) for d in others)
                    why = "the second side is not always asked"
            cx.verdict(good, r12, "and-arm:both-sides", fq.where(), "true only after both sides were asked",
                       "is_equi_condition answers true for `a AND b` although %s: ON a.x = b.y AND a.z < b.w is planned as a hash/merge join on "
                       "(x, y) and the second conjunct is never evaluated" % why)

    # ---- C05.13 a group exists only because an input row belongs to it -----------------------------------------------------------------
    r13 = cx.rule("C05.13", "MPR: in the aggregate executor a group (GroupBucket / Accumulator) is created either for an input row - in a "
                  "function that is handed the row - or, without any row, only under the test that there is no GROUP BY (the one default "
                  "row of a scalar aggregate); a grouped aggregate over an empty input has no groups and returns no row", floor=2)
    AGG = "runtime::ops::aggregate::"
    ctor = {AGG + "Accumulator::new", AGG + "GroupBucket::new"}
    n13 = 0
    for g in K.each_fn(p):
        root = g.root or g.id
        if not (root.startswith(AGG + "HashAggregate") or root.startswith("<" + AGG + "HashAggregate")):
            continue
        sites13 = [c for c in g.calls() if c.callee in ctor]
        if not sites13:
            continue
        rootf = p.raw_fns.get(root)
        per_row = rootf is not None and any("storage::tuple::Row" in rootf.locals[i] for i in range(1, rootf.nargs + 1))
        for c in sites13:
            n13 += 1
            if per_row:
                cx.ok(r13, "%s#%d" % (root.rsplit("::", 1)[-1], n13), c.where(), "created for the input row handed to %s" % root.rsplit("::", 1)[-1])
                continue
            # gates: branches on `self.group_by.is_empty()` / `.len() == 0`
            gated = False
            for bi, b in enumerate(g.blocks):
                t = b["term"]
                if t["t"] != "switch" or t.get("ty") != "bool" or op_local(t["o"]) is None or not g.dominates(bi, c.bb) or bi == c.bb:
                    continue
                prod = [x for x in g.calls() if x.dst and x.dst[0] in (g.provenance_locals(op_local(t["o"])) | {op_local(t["o"])})
                        and x.callee.rsplit("::", 1)[-1] in ("is_empty", "len")]
                def reads_gb(l):
                    ls = g.provenance_locals(l) | {l}
                    for bb_ in g.blocks:
                        for st in bb_["stmts"]:
                            if st["dst"][0] in ls:
                                pls = [st["rv"].get("p") or []] + [(o.get("c") or o.get("m") or []) for o in (st["rv"].get("o") or [])
                                                                   if isinstance(st["rv"].get("o"), list) and isinstance(o, dict)]
                                if any(isinstance(pe, str) and pe.startswith(".group_by:") for pl in pls for pe in pl[1:]):
                                    return True
                    return False
                on_group_by = any(x.args and op_local(x.args[0]) is not None and reads_gb(op_local(x.args[0])) for x in prod)
                if not on_group_by:
                    continue
                zero = [tg for v, tg in t["targets"] if v == 0]
                if zero and c.bb not in g.reachable(zero[0], blocked={bi}):
                    gated = True
            cx.verdict(gated, r13, "%s#%d" % (root.rsplit("::", 1)[-1], n13), c.where(), "created without a row only when there is no GROUP BY",
                       "%s creates a group without an input row and without asking whether the statement has a GROUP BY: a grouped "
                       "aggregate over an empty (or fully filtered) input returns one row of defaults instead of none" % root.rsplit("::", 1)[-1])
