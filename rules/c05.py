"""C05 — query answers match SQL semantics (partly claimed: precedence tables, negation flags, exhaustiveness)."""
from axvlib import core
from axvlib.core import AnchorMissing, op_local, op_const, enum_switches, dominated
from . import common as K

EXPLANATION = (
    "Decides the table-shaped part of SQL semantics: the Pratt binding-power table agrees with the SQL precedence "
    "order (OR < AND < NOT < comparison/IS/LIKE/IN/BETWEEN < additive < multiplicative < unary sign), is left "
    "associative, the loop stops on l_bp < min_bp, prefix operators recurse with a power inside their class window, "
    "the token sets of the power table and of parse_infix are equal; every `negated` flag in the evaluator is "
    "combined with its base predicate by (in)equality and never by a short-circuit; every expression, operator and "
    "function variant has an evaluator arm that does not panic; the optimizer's translation of comparisons into index "
    "range bounds uses the side and inclusiveness the operator means, for both operand orders (C05.6).")
NOT_DECIDED = ("three-valued logic beyond the negation flag, join pairing, aggregates, ORDER BY/LIMIT arithmetic, "
               "affected-row counts (value-level)")
ASSUMPTIONS = ["SQL precedence classes as listed in rules/c05.py"]

PARSER = "sql::parser::Parser"
TOKEN = "sql::parser::lexer::Token"
CLASSES = [
    ("or", {"Or"}),
    ("and", {"And"}),
    ("comparison", {"Eq", "Neq", "Lt", "Gt", "Le", "Ge", "Like", "In", "Between", "Is", "Not"}),
    ("additive", {"Plus", "Minus", "Concat"}),
    ("multiplicative", {"Star", "Slash", "Percent"}),
]


def some_pair_in(f, blocks):
    """the (a, b) of `Some((a, b))` built in the region, None-only regions give None"""
    pairs = set()
    none = False
    for bi in blocks:
        for s in f.blocks[bi]["stmts"]:
            rv = s["rv"]
            if rv.get("r") == "agg" and rv.get("akind") == "tuple" and len(rv["o"]) == 2:
                ks = [op_const(o) for o in rv["o"]]
                if all(k is not None and "v" in k for k in ks):
                    pairs.add((ks[0]["v"], ks[1]["v"]))
            if rv.get("r") == "agg" and rv.get("variant") == "None" and s["dst"] == [0]:
                none = True
    return pairs, none


def binding_table(p):
    f = p.method(PARSER, "infix_binding_power")
    sw = [x for x in enum_switches(p, f) if x[1] == TOKEN]
    if not sw:
        raise AnchorMissing("no match on Token in infix_binding_power")
    top = sw[0]
    table = {}
    for tok, tgt in top[2].items():
        pairs, none = some_pair_in(f, dominated(f, tgt))
        table[tok] = pairs
    return f, table


def check(cx):
    p = cx.p
    # ---- C05.1 precedence -------------------------------------------------------------------
    r1 = cx.rule("C05.1", "TAB: binding powers follow the SQL precedence classes, r = l + 1 (left associative), the "
                 "Pratt loop breaks on l_bp < min_bp, and each prefix operator recurses with a power inside its "
                 "class window", floor=19 + 4)
    got = cx.guard(r1, "binding-table", binding_table, p)
    lpow = {}
    if got:
        f, table = got
        prev = -1
        for cname, toks in CLASSES:
            ls = set()
            for t in sorted(toks):
                pairs = table.get(t)
                if not pairs:
                    cx.bad(r1, "token:" + t, f.where(), "token %s has no binding power" % t)
                    continue
                good = len(pairs) == 1
                (l, r) = sorted(pairs)[0]
                good = good and r == l + 1
                ls.add(l)
                cx.verdict(good, r1, "token:" + t, f.where(), "(%d,%d) class %s" % (l, r, cname),
                           "token %s has powers %s: not a single left-associative pair (r = l+1)" % (t, sorted(pairs)))
            if ls:
                good = len(ls) == 1 and min(ls) > prev
                cx.verdict(good, r1, "class:" + cname, f.where(), "left power %s > %d" % (sorted(ls), prev),
                           "class %s has left powers %s; must be one value above %d (the class below)" % (cname, sorted(ls), prev))
                lpow[cname] = min(ls)
                prev = max(ls)
        extra = set(table) - set().union(*[t for _, t in CLASSES])
        cx.verdict(not extra, r1, "no-unclassified-token", f.where(), "all %d tokens classified" % len(table),
                   "tokens %s have a binding power but no SQL precedence class in the reference" % sorted(extra))
    # the loop comparator
    # the Pratt loop = the Parser method that calls infix_binding_power inside a loop
    ibp = p.method(PARSER, "infix_binding_power").id
    loops = [g for g in p.fns.values() if g.impl_adt == PARSER and any(
        c.callee == ibp and any(c.bb in body for _, body in core.natural_loops(g)) for c in g.calls())]
    fb = loops[0] if len(loops) == 1 else None
    if fb is None:
        cx.bad(r1, "loop-break:anchor-missing", "", "expected exactly one Parser method calling infix_binding_power in a loop, found %d" % len(loops))
    if fb:
        cmps = [(bi, s) for bi, b in enumerate(fb.blocks) for s in b["stmts"]
                if s["rv"].get("r") == "bin" and s["rv"]["op"] in ("Lt", "Le", "Gt", "Ge")]
        good = False
        why = "no comparison with min_bp"
        for bi, s in cmps:
            a, b2 = s["rv"]["o"]
            la, lb = op_local(a), op_local(b2)
            if lb is not None and (lb == 2 or 2 in fb.dep_closure(lb)) and la is not None and 2 not in fb.dep_closure(la):
                good = s["rv"]["op"] == "Lt"
                why = "%s(l_bp, min_bp)" % s["rv"]["op"]
            elif la is not None and (la == 2 or 2 in fb.dep_closure(la)) and lb is not None:
                good = s["rv"]["op"] == "Gt"
                why = "%s(min_bp, l_bp)" % s["rv"]["op"]
        cx.verdict(good, r1, "loop-break", fb.where(), why,
                   "the Pratt loop compares with %s; only `l_bp < min_bp` keeps operators of equal power left associative" % why)
    # prefix arms
    fp = cx.guard(r1, "parse_prefix", p.method, PARSER, "parse_prefix")
    if fp and lpow:
        sw = [x for x in enum_switches(p, fp) if x[1] == TOKEN]
        arms = sw[0][2] if sw else {}
        bp = p.method(PARSER, "parse_expr_bp").id
        windows = {"Not": (lpow.get("and", 0), lpow.get("comparison", 0), "AND < min_bp <= comparison"),
                   "Plus": (lpow.get("additive", 0), 255, "additive < min_bp"),
                   "Minus": (lpow.get("additive", 0), 255, "additive < min_bp")}
        for tok, (lo, hi, txt) in windows.items():
            if tok not in arms:
                cx.bad(r1, "prefix:" + tok, fp.where(), "no prefix arm for " + tok)
                continue
            reg = dominated(fp, arms[tok])
            vals = set()
            for c in fp.calls():
                if c.bb in reg and c.callee == bp:
                    k = op_const(c.args[1])
                    vals.add(k.get("v") if k else None)
            good = bool(vals) and all(v is not None and lo < v <= hi for v in vals)
            cx.verdict(good, r1, "prefix:" + tok, fp.where(), "min_bp %s within (%d, %d]" % (sorted(vals), lo, hi),
                       "prefix %s recurses with min_bp %s; SQL needs %s, i.e. (%d, %d]" % (tok, sorted(x for x in vals if x is not None), txt, lo, hi))

    # ---- C05.2 infix coverage ------------------------------------------------------------------
    r2 = cx.rule("C05.2", "TAB: every token with a binding power has an arm in parse_infix and vice versa", floor=1)
    fi = cx.guard(r2, "parse_infix", p.method, PARSER, "parse_infix")
    if fi and got:
        sw = [x for x in enum_switches(p, fi) if x[1] == TOKEN]
        inf = set(sw[0][2]) if sw else set()
        have = {t for t, pr in got[1].items() if pr}
        cx.verdict(inf == have, r2, "token-sets-equal", fi.where(), "%d tokens on both sides" % len(have),
                   "binding powers for %s without parse_infix arm; parse_infix arms for %s without power" % (
                       sorted(have - inf), sorted(inf - have)))

    # ---- C05.3 negation flags ---------------------------------------------------------------------
    r3 = cx.rule("C05.3", "FLOW: every `negated` flag in runtime::eval is combined with its base predicate by "
                 "!=, == or ^ (or tested by an if); copying it into the result (what `x || negated` / `!negated && x` "
                 "compile to) makes the predicate constant in one polarity", floor=4)
    n_sites = 0
    for f in p.fns.values():
        if not f.id.startswith("runtime::eval::"):
            continue
        places = f.named_locals("negated")
        for pl in places:
            base = pl[0]
            # all locals holding (a copy of) the flag value or a reference to it
            holders = {base}
            changed = True
            while changed:
                changed = False
                for b in f.blocks:
                    for s in b["stmts"]:
                        rv = s["rv"]
                        if rv.get("r") == "use":
                            l = op_local(rv["o"][0])
                            if l in holders and s["dst"][0] not in holders and len(s["dst"]) == 1 \
                                    and f.locals[s["dst"][0]] in ("bool", "&bool"):
                                holders.add(s["dst"][0])
                                changed = True
            combined, escaped, forwarded, tested = [], [], [], []
            for bi, b in enumerate(f.blocks):
                for s in b["stmts"]:
                    rv = s["rv"]
                    ols = [op_local(o) for o in rv.get("o", [])] if isinstance(rv.get("o"), list) else []
                    if not any(l in holders for l in ols):
                        continue
                    if rv.get("r") == "bin" and rv["op"] in ("Ne", "Eq", "BitXor"):
                        combined.append(s["l"])
                    elif rv.get("r") == "un" and rv["op"] == "Not":
                        # `!negated` — fine only if the result is then tested or compared; track as holder
                        if s["dst"][0] not in holders:
                            holders.add(s["dst"][0])
                    elif rv.get("r") == "use":
                        d = s["dst"][0]
                        if d not in holders:
                            escaped.append(s["l"])  # the flag itself becomes (part of) a result
                    elif rv.get("r") in ("agg", "cast"):
                        escaped.append(s["l"])
                t = b["term"]
                if t["t"] == "switch" and op_local(t["o"]) in holders:
                    # `if negated { !x } else { x }` is fine; `!negated && x` is a switch one arm of which
                    # stores a *constant* into the join local (the base predicate is ignored in that polarity)
                    arms = set([x[1] for x in t["targets"]] + [t["otherwise"]])
                    const_arm = False
                    for a in arms:
                        ab = f.blocks[a]
                        if ab["term"]["t"] == "goto" and len(ab["stmts"]) >= 1:
                            st = ab["stmts"][-1]
                            k = op_const(st["rv"]["o"][0]) if st["rv"].get("r") == "use" else None
                            if k is not None and k.get("ty") == "bool" and f.locals[st["dst"][0]] == "bool":
                                const_arm = True
                    if const_arm:
                        tested.append(t.get("l", 0))
                    else:
                        combined.append(t.get("l", 0))
                if t["t"] == "call":
                    for o in t["args"]:
                        if op_local(o) in holders:
                            forwarded.append(t["fn"].get("res") or t["fn"].get("def"))
            if not (combined or escaped or tested or forwarded):
                continue
            n_sites += 1
            # `!negated && x` = switch on !negated with a constant-false arm: a test whose one arm ignores x.
            # a switch on the flag is accepted only when both arms evaluate the base predicate; in this
            # code base no arm uses `if negated`, so a switch on the flag is the short-circuit shape.
            good = bool(combined or forwarded) and not escaped and not tested
            key = "%s:%s" % (f.id, pl if len(pl) > 1 else "_%d" % base)
            cx.verdict(good, r3, key, f.where(),
                       "combined by %s at line(s) %s%s" % ("==/!=", combined, (", forwarded to %s" % forwarded) if forwarded else ""),
                       "the negation flag is %s (lines %s): NOT <pred> is constant in one polarity" % (
                           "copied into the result" if escaped else "used as a short-circuit operand", escaped or tested))

    # ---- C05.4 exhaustiveness ------------------------------------------------------------------------
    r4 = cx.rule("C05.4", "TAB: every BoundExpression / BinaryOperator / UnaryOperator / ScalarFunction / "
                 "AggregateFunction variant has an evaluator arm that can return (no arm ends in todo!/unreachable!)",
                 floor=14 + 20 + 3 + 15 + 5)
    EV = "runtime::eval::ExpressionEvaluator"
    targets = [
        (EV, "evaluate", "sql::binder::bounds::BoundExpression"),
        (EV, "eval_binary_op", "sql::parser::ast::BinaryOperator"),
        (EV, "eval_unary_op", "sql::parser::ast::UnaryOperator"),
        (EV, "evaluate", "sql::binder::bounds::ScalarFunction"),
        ("runtime::ops::aggregate::Accumulator", "new", "sql::binder::bounds::AggregateFunction"),
    ]
    for adt, name, enum in targets:
        f = cx.guard(r4, "%s::%s" % (adt, name), p.method, adt, name)
        if not f:
            continue
        sws = [x for x in enum_switches(p, f) if x[1] == enum]
        if not sws:
            cx.bad(r4, "%s:%s:no-match" % (name, enum), f.where(), "no match on %s in %s" % (enum, f.id))
            continue
        # the widest switch is the dispatch
        bi, _, m, oth, _ = max(sws, key=lambda x: len(x[2]))
        for v in p.enum_variants(enum):
            t = m.get(v["name"], oth)
            pan = core.diverges(f, t)
            cx.verdict(not pan, r4, "%s:%s" % (name, v["name"]), f.where(),
                       "arm bb%d returns" % t,
                       "the %s arm of %s ends in a panic (todo!/unreachable!): a statement using it kills the "
                       "statement with an internal error (D13)" % (v["name"], f.id))

    # ---- C05.5 (construct shared with C06.4) -----------------------------------------------------------------
    from . import c06
    cx.include(c06, {"C06.4"}, "C05.5", "shared with C06.4: join reordering and filter pushdown are applied to inner/cross joins only "
               "(outer-join rows must be NULL-extended before WHERE predicates on the inner side are evaluated)", floor=3)

    # ---- C05.6 index range bounds follow the comparison operators --------------------------------------------
    r6 = cx.rule("C05.6", "TAB: in FilterToIndexScanRule::collect_bounds each comparison arm that turns `column op literal` "
                 "(or `literal op column`) into an index bound pushes onto the side and with the inclusiveness the operator "
                 "means: = start&end inclusive; col>lit / lit<col start exclusive; col>=lit / lit<=col start inclusive; "
                 "col<lit / lit>col end exclusive; col<=lit / lit>=col end inclusive; every other operator reaches the "
                 "residual predicate", floor=12)
    CB = "sql::planner::rules::FilterToIndexScanRule::collect_bounds"
    f = cx.guard(r6, "collect_bounds", p.fn, CB)
    if f:
        # parameters: self, index_id, expr, indexed_columns, range_start, range_end, residual
        pn = {}
        for k, v in f.names.items():
            if isinstance(v, list) and len(v) == 1 and v[0] <= f.nargs:
                pn[k.split("#")[0]] = v[0]
        START, END, RES = pn.get("range_start"), pn.get("range_end"), pn.get("residual")
        if None in (START, END, RES):
            # positional fallback (a renamed parameter is not a violation)
            START, END, RES = 5, 6, 7
        side_refs = {}
        for b in f.blocks:
            for st in b["stmts"]:
                if st["rv"].get("r") == "ref" and len(st["dst"]) == 1:
                    for pe in st["rv"]["p"][1:]:
                        if isinstance(pe, str) and pe.startswith(".left:"):
                            side_refs[st["dst"][0]] = "left"
                        if isinstance(pe, str) and pe.startswith(".right:"):
                            side_refs[st["dst"][0]] = "right"
        eci = [c for c in f.calls() if c.callee.endswith("::extract_column_info")]
        pushes = [c for c in f.calls() if c.callee.endswith("Vec::<T, A>::push")]

        def push_target(c):
            d = {x[1] for x in f.nearest_calls(op_local(c.args[0])) if x[0] == "param"}   # the reborrowed parameter
            hit = [n for n, l in (("start", START), ("end", END), ("residual", RES)) if l in d]
            return hit[0] if len(hit) == 1 else None

        WANT = {
            "left": {"Eq": ({"start", "end"}, {1}), "Gt": ({"start"}, {0}), "Ge": ({"start"}, {1}), "Lt": ({"end"}, {0}), "Le": ({"end"}, {1})},
            # literal on the left: the operator is mirrored
            "right": {"Eq": ({"start", "end"}, {1}), "Lt": ({"start"}, {0}), "Le": ({"start"}, {1}), "Gt": ({"end"}, {0}), "Ge": ({"end"}, {1})},
        }
        seen_sides = set()
        for bi, adt, m, oth, src in enum_switches(p, f):
            if adt != "sql::parser::ast::BinaryOperator" or len(m) < 2:
                continue
            dom = [c for c in eci if f.dominates(c.bb, bi)]
            if not dom:
                continue
            last = max(dom, key=lambda c: sum(1 for d_ in dom if f.dominates(d_.bb, c.bb)))
            sides = {side_refs[l] for l in f.dep_closure(op_local(last.args[0])) if l in side_refs}
            if len(sides) != 1:
                cx.bad(r6, "side-unknown@%s" % sorted(m), last.where(), "cannot tell which operand is the column")
                continue
            side = sides.pop()
            seen_sides.add(side)
            for var in ("Eq", "Lt", "Le", "Gt", "Ge"):
                key = "%s:%s" % ("col-op-lit" if side == "left" else "lit-op-col", var)
                if var not in m:
                    # not used as a bound: must reach the residual push (sound, merely slower)
                    reach = f.reachable(oth)
                    cx.verdict(any(push_target(c) == "residual" and c.bb in reach for c in pushes), r6, key, f.where(),
                               "kept as residual predicate", "operator %s is neither a bound nor kept as residual" % var)
                    continue
                reg = dominated(f, m[var])
                vecs = {push_target(c) for c in pushes if c.bb in reg}
                incl = set()
                for b_ in reg:
                    for st in f.blocks[b_]["stmts"]:
                        rv = st["rv"]
                        if rv.get("r") == "agg" and str(rv.get("adt", "")).endswith("IndexRangeBound"):
                            i = rv["fields"].index("inclusive")
                            k = op_const(rv["o"][i])
                            incl.add(k.get("v") if k else "non-constant")
                wv, wi = WANT[side][var]
                if "non-constant" in incl and vecs == wv:
                    # inclusiveness computed at run time (e.g. arms merged with `inclusive: op == Ge`): not a table entry
                    cx.advisory(r6, key, f.where(), "the `%s` arm computes `inclusive` at run time: side checked (%s), inclusiveness not decided" % (var, sorted(vecs)))
                    continue
                cx.verdict(vecs == wv and incl == wi, r6, key, f.where(), "pushes %s, inclusive=%s" % (sorted(vecs), sorted(incl)),
                           "the `%s` arm for %s pushes onto %s with inclusive=%s, the operator means %s with inclusive=%s: the "
                           "index scan returns a different row set than the filter it replaces (boundary row lost or added)" % (
                               var, "column-op-literal" if side == "left" else "literal-op-column", sorted(str(x) for x in vecs),
                               sorted(str(x) for x in incl), sorted(wv), sorted(wi)))
            # operators without an arm fall through to the residual
            reach = f.reachable(oth)
            cx.verdict(any(push_target(c) == "residual" and c.bb in reach for c in pushes), r6,
                       "%s:other-operators" % ("col-op-lit" if side == "left" else "lit-op-col"), f.where(),
                       "other operators reach residual.push", "operators without a bound arm are dropped instead of being kept as residual")
        if seen_sides != {"left", "right"}:
            cx.bad(r6, "sides", f.where(), "expected one operator table per operand order, found %s" % sorted(seen_sides))
