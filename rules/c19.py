"""C19 — values compare, hash, cast and round-trip consistently (partly claimed)."""
from axvlib import core
from axvlib.core import AnchorMissing, op_local, op_const, enum_switches, dominated
from . import common as K

EXPLANATION = (
    "Decides the routing of value comparison: equality, ordering and hashing of DataType / DataTypeRef send every numeric "
    "variant through one projection, and it must be the same projection for Eq, Ord and Hash (otherwise equal values hash "
    "differently); that projection must not be lossy for integer pairs (to_f64 collapses integers above 2^53 — known "
    "finding D20); ORDER BY, DISTINCT, GROUP BY, IN-lists, the merge/hash joins and the B+tree key comparator all resolve "
    "to these same impls, so order agreement between indexes and sorting reduces to the first two clauses; float-to-integer "
    "casts convert directly into a type wide enough for the target and check the range against the target's own MIN/MAX.")
NOT_DECIDED = ("total-order laws, NaN and -0.0, the arithmetic of casts, serialisation round trips, byte-wise comparison of TEXT/BLOB "
               "(value-level arithmetic)")
ASSUMPTIONS = []

NUMERIC = ["Int", "BigInt", "UInt", "BigUInt", "Float", "Double"]
INTS = ["Int", "BigInt", "UInt", "BigUInt"]


def projections(p, f, adt):
    """for a hash-like fn with one match on the value: variant -> set of projection tags used in its arm"""
    sws = [x for x in enum_switches(p, f) if x[1] == adt]
    if not sws:
        return None
    bi, _, m, oth, _ = max(sws, key=lambda x: len(x[2]))
    out = {}
    for v, tgt in m.items():
        reg = dominated(f, tgt)
        tags = set()
        for b in reg:
            for s in f.blocks[b]["stmts"]:
                if s["rv"].get("r") == "cast" and "Pointer" not in s["rv"]["kind"]:
                    tags.add("%s->%s" % (s["rv"]["kind"], s["rv"]["to"]))
        for c in f.calls():
            if c.bb in reg:
                short = c.callee.rsplit("::", 1)[-1]
                if short in ("to_bits", "to_f64", "to_i64", "to_u64"):
                    tags.add(short)
                if "Hash for" in c.callee:
                    tags.add("hash:" + c.callee.split("Hash for ")[1].split(">")[0])
        out[v] = tags
    return out


def check(cx):
    p = cx.p
    for adt in ("types::DataType", "types::DataTypeRef"):
        short = adt.rsplit("::", 1)[-1]
        gen = "<'_>" if adt.endswith("Ref") else ""
        # ---- C19.1 one projection for Eq / Ord / Hash --------------------------------------------
        r1 = cx.rule("C19.1", "SIB: PartialEq, PartialOrd and Hash of DataType and DataTypeRef project every numeric "
                     "variant onto the same representation (f64) before comparing/hashing — equal values hash equally; eq and partial_cmp use "
                     "the same float comparison (IEEE or total order, not one each)", floor=8)
        feq = cx.guard(r1, short + ":eq", p.fn, "<%s%s as std::cmp::PartialEq>::eq" % (adt, gen))
        ford = cx.guard(r1, short + ":partial_cmp", p.fn, "<%s%s as std::cmp::PartialOrd>::partial_cmp" % (adt, gen))
        fh = cx.guard(r1, short + ":hash", p.fn, "<%s%s as std::hash::Hash>::hash" % (adt, gen))
        to_f64 = "%s::to_f64" % adt if not gen else "types::DataTypeRef::<'a>::to_f64"
        for nm, f in (("eq", feq), ("partial_cmp", ford)):
            if not f:
                continue
            uses = [c for c in f.calls() if c.callee == to_f64]
            isnum = [c for c in f.calls() if c.callee.endswith("::is_numeric")]
            cx.verdict(len(uses) >= 2 and bool(isnum), r1, "%s:%s:numeric-via-f64" % (short, nm), f.where(),
                       "numeric operands are compared through to_f64()", "%s of %s no longer routes numeric operands through to_f64()" % (nm, short))
        # equality and ordering use one float comparison: IEEE `==`/partial_cmp in both, or the total order in both
        # (eq by total_cmp makes -0.0 != 0.0 while partial_cmp still answers Equal)
        if feq and ford:
            tot = {nm: any(c.callee.rsplit("::", 1)[-1] in ("total_cmp", "to_bits") for g_ in [f_.id] + list(p.closure_children.get(f_.id, ())) for c in p.fns[g_].calls())
                   for nm, f_ in (("eq", feq), ("partial_cmp", ford))}
            cx.verdict(tot["eq"] == tot["partial_cmp"], r1, "%s:eq-and-ord-same-float-comparison" % short, feq.where(),
                       "eq and partial_cmp both use the %s float comparison" % ("total-order" if tot["eq"] else "IEEE"),
                       "eq uses %s and partial_cmp uses %s float comparison for %s: x = y and `x >= y AND x <= y` disagree for signed zeros" % (
                           "the bit-level/total-order" if tot["eq"] else "the IEEE", "the bit-level/total-order" if tot["partial_cmp"] else "the IEEE", short))
        if fh:
            pr = projections(p, fh, adt)
            if not pr:
                cx.bad(r1, short + ":hash:no-match", fh.where(), "hash does not match on the value")
            else:
                kinds = {}
                for v in NUMERIC:
                    tags = pr.get(v, set())
                    k = "f64-bits" if ("to_bits" in tags and (any(t.endswith("->f64") for t in tags) or v == "Double")) else \
                        ("other:" + ",".join(sorted(tags)))
                    kinds[v] = k
                good = set(kinds.values()) == {"f64-bits"}
                cx.verdict(good, r1, short + ":hash:numeric-via-f64-bits", fh.where(), "all numeric variants hash the bits of their f64 projection",
                           "numeric variants hash different projections %s while equality compares them all as f64: "
                           "Int(1) == Double(1.0) but they hash differently (IN-lists, DISTINCT, GROUP BY, hash join miss matches)" % kinds)

        # ---- C19.2 no lossy route for integer pairs ---------------------------------------------------
        r2 = cx.rule("C19.2", "FLOW: equality/ordering of two integer values must not go through an integer-to-float "
                     "projection (f64 has 53 bits of mantissa) nor through an integer cast whose destination cannot hold every source value", floor=4)
        for nm, f in (("eq", feq), ("partial_cmp", ford)):
            if not f:
                continue
            int_cmp = [s for b in f.blocks for s in b["stmts"] if s["rv"].get("r") == "bin" and s["rv"]["op"] in ("Eq", "Ne", "Lt", "Le", "Gt", "Ge")
                       and all((f.locals[op_local(o)] if op_local(o) is not None else "") in ("i64", "u64", "i32", "u32", "i128") for o in s["rv"]["o"])]
            int_calls = [c for c in f.calls() if ("PartialOrd for i64" in c.callee or "PartialOrd for u64" in c.callee or "Ord for i64" in c.callee
                                                  or "PartialEq for i64" in c.callee or "i128" in c.callee)]
            cx.verdict(bool(int_cmp or int_calls), r2, "%s:%s:integer-pairs-exact" % (short, nm), f.where(), "integer pairs are compared as integers",
                       "%s of %s compares two integers through to_f64(): 9007199254740993 = 9007199254740992 is true (D20)" % (nm, short))
            # an exact integer comparison must not get there through a wrapping cast (u64 as i64 turns 2^63.. negative)
            RNG = {"i8": (-2**7, 2**7 - 1), "i16": (-2**15, 2**15 - 1), "i32": (-2**31, 2**31 - 1), "i64": (-2**63, 2**63 - 1),
                   "i128": (-2**127, 2**127 - 1), "u8": (0, 2**8 - 1), "u16": (0, 2**16 - 1), "u32": (0, 2**32 - 1),
                   "u64": (0, 2**64 - 1), "u128": (0, 2**128 - 1)}
            wraps = []
            for gid in [f.id] + list(p.closure_children.get(f.id, ())):
                g = p.fns[gid]
                for b in g.blocks:
                    for st in b["stmts"]:
                        rv = st["rv"]
                        if rv.get("r") == "cast" and rv.get("kind") == "IntToInt":
                            o = rv["o"][0]
                            pl = o.get("c") or o.get("m")
                            sty = core.place_type(p, g, pl) if pl else None
                            dty = rv.get("to")
                            if sty in RNG and dty in RNG and (RNG[dty][0] > RNG[sty][0] or RNG[dty][1] < RNG[sty][1]):
                                wraps.append("%s as %s" % (sty, dty))
            cx.verdict(not wraps, r2, "%s:%s:no-wrapping-cast" % (short, nm), f.where(), "no wrapping integer cast between the operands",
                       "%s of %s casts an operand with `%s`: values outside the destination range wrap, so e.g. a BIGUINT >= 2^63 "
                       "orders below every BIGINT while `=` still tells them apart" % (nm, short, ", ".join(sorted(set(wraps)))))

    # ---- C19.3 one comparator everywhere ------------------------------------------------------------------
    r3 = cx.rule("C19.3", "SIB: ORDER BY, DISTINCT, GROUP BY, IN-lists, joins and the B+tree key comparator resolve to the "
                 "DataType/DataTypeRef impls of PartialOrd/PartialEq/Hash (one notion of order and equality); the key comparator compares whole keys; the sort comparator ties two NULL keys", floor=7)
    ORD = {"<types::DataType as std::cmp::PartialOrd>::partial_cmp", "<types::DataTypeRef<'_> as std::cmp::PartialOrd>::partial_cmp"}
    EQH = {"<types::DataType as std::cmp::PartialEq>::eq", "<types::DataType as std::hash::Hash>::hash"}
    users = [
        ("sort", r"^<runtime::ops::sort::", ORD),
        ("distinct", r"^<runtime::ops::distinct::", EQH),
        ("aggregate", r"^<?runtime::ops::aggregate::", EQH),
        ("merge-join", r"^<runtime::ops::join::MergeJoin", ORD),
        ("btree-keys", r"^<?tree::cell_ops::.*[Cc]omparator", ORD),
        ("in-list", r"^runtime::eval::ExpressionEvaluator::<'a>::evaluate$", EQH),
    ]
    for name, pat, want in users:
        fs = p.find_fns(pat)
        if not fs:
            cx.bad(r3, name + ":anchor-missing", "", "no function matches %s" % pat)
            continue
        reach = p.reach_forward([f.id for f in fs])
        hit = reach & want
        # generic containers (HashSet/HashMap/sort_by) call the trait through generic code: accept the use of a
        # std collection keyed by DataType as evidence as well
        keyed = any(any(("DataType" in g) for g in c.gargs + c.rgargs) and any(x in c.callee for x in ("HashSet", "HashMap", "sort", "BTreeMap", "IndexMap", "partial_cmp", "::cmp"))
                    for f in fs for c in f.calls())
        cx.verdict(bool(hit) or keyed, r3, name, fs[0].where(), "uses %s" % (sorted(hit) or "std collection keyed by DataType"),
                   "%s no longer compares through the DataType impls (own comparison logic?)" % name)

    # the tree's key comparator sees the whole stored key: no bounded reassembly of an overflow cell
    cmp_fns = [g for g in p.fns.values() if (g.root or g.id).startswith("tree::cell_ops::") and "Comparator" in (g.root or g.id)]
    bounded = sorted({"%s in %s" % (c.callee.rsplit("::", 1)[-1], (g.root or g.id).rsplit("::", 1)[-1]) for g in cmp_fns for c in g.calls()
                      if "Reassembler" in c.callee and c.callee.rsplit("::", 1)[-1] not in ("new", "reassemble", "into_boxed_slice", "as_slice")
                      and "max_size" in c.callee.rsplit("::", 1)[-1]})
    cx.verdict(bool(cmp_fns) and not bounded, r3, "btree-keys:whole-key", cmp_fns[0].where() if cmp_fns else "",
               "key comparators reassemble overflow cells completely (%d functions)" % len(cmp_fns),
               "the tree's key comparator reassembles an overflow cell with a size bound (%s): a stored key longer than the probe is cut in the "
               "middle, the comparison fails or orders wrongly, and the outcome depends on page size and min_keys (where the cell spills)" % ", ".join(bounded))

    # ORDER BY: two NULL keys tie (and the next key decides); the comparator must look at both values before placing a NULL
    fsort = [g for g in p.fns.values() if g.name == "compare_keys" and "ops::sort::" in g.id and not g.root]
    if not fsort:
        cx.bad(r3, "sort:null-ties", "", "the sort comparator (compare_keys in runtime::ops::sort) was not found")
    else:
        g0 = p.fns[fsort[0].id]
        good = False
        # the placement of NULL keys may sit in compare_keys itself, in a closure of its iterator chain or in a helper
        # (`compare_nullable(a, b, nulls_first)`) - the helper is seen inlined into the member that calls it
        for g in K.family(p, g0):
            tests = []       # (block, null-arm target, scrutinee root local)
            for bi, adt, m, oth, src in enum_switches(p, g):
                if adt == "types::DataType" and "Null" in m:
                    tests.append((bi, m["Null"], src[0]))
            for c in g.calls():
                if c.callee.endswith("::is_null") and c.term["to"] is not None:
                    tb = g.blocks[c.term["to"]]["term"]
                    if tb["t"] == "switch" and op_local(tb["o"]) == c.dst[0]:
                        tests.append((c.term["to"], tb["otherwise"], op_local(c.args[0])))
            first = [t for t in tests if all(g.dominates(t[0], u[0]) for u in tests)]
            if first:
                t0 = first[0]
                reg = dominated(g, t0[1])
                good = good or any(u[0] in reg and u[2] != t0[2] for u in tests)
        g = g0
        cx.verdict(good, r3, "sort:null-ties", g.where(), "on a NULL key the other key is tested for NULL too (NULL, NULL ties)",
                   "the sort comparator places a NULL key without looking at the other key: two NULLs compare Greater (or Less) in both "
                   "directions, the comparator is not antisymmetric and never reaches the later sort keys for those rows")

    # ---- C19.4 float -> integer casts --------------------------------------------------------------------------
    r4 = cx.rule("C19.4", "FLOW: for every `impl TypeCast<IntN|UIntN> for FloatM` the float-to-integer conversion reachable from "
                 "try_cast goes directly into an integer type that can hold every value of the target (no detour through a "
                 "type that saturates earlier, e.g. u64 via i64), and the range bounds handed to the helper are MIN/MAX of the "
                 "target's own primitive", floor=8)
    PRIM = {"Int32": "i32", "Int64": "i64", "UInt32": "u32", "UInt64": "u64"}
    RANGE = {"i8": (-2**7, 2**7 - 1), "i16": (-2**15, 2**15 - 1), "i32": (-2**31, 2**31 - 1), "i64": (-2**63, 2**63 - 1),
             "i128": (-2**127, 2**127 - 1), "isize": (-2**63, 2**63 - 1), "u8": (0, 2**8 - 1), "u16": (0, 2**16 - 1),
             "u32": (0, 2**32 - 1), "u64": (0, 2**64 - 1), "u128": (0, 2**128 - 1), "usize": (0, 2**64 - 1)}
    import re as _re
    for f in sorted(p.fns.values(), key=lambda x: x.id):
        m_ = _re.match(r"^<types::numeric::(Float32|Float64) as types::core::TypeCast<types::numeric::(\w+)>>::try_cast$", f.id)
        if not m_ or m_.group(2) not in PRIM:
            continue
        src, tgt = m_.group(1), m_.group(2)
        prim = PRIM[tgt]
        reach = {x for x in p.reach_forward([f.id]) if x in p.fns and (x.startswith("types::") or x.startswith("<types::"))}
        casts = []
        for gid in sorted(reach | {f.id}):
            g = p.fns[gid]
            for b in g.blocks:
                for st in b["stmts"]:
                    if st["rv"].get("r") == "cast" and st["rv"]["kind"] == "FloatToInt":
                        casts.append((gid, st["rv"]["to"]))
        lo, hi = RANGE[prim]
        bad = [(g_, t_) for g_, t_ in casts if t_ not in RANGE or RANGE[t_][0] > lo or RANGE[t_][1] < hi]
        cx.verdict(bool(casts) and not bad, r4, "%s->%s:direct" % (src, tgt), f.where(),
                   "float-to-int casts: %s" % sorted({t_ for _, t_ in casts}),
                   "casting %s to %s converts the float through %s, which cannot hold every %s value: large values saturate "
                   "to a different number (store/load and equality with the literal break)" % (src, tgt, bad or "no float-to-int cast", prim))
        bounds = set()
        for b in f.blocks:
            for st in b["stmts"]:
                if st["rv"].get("r") == "cast" and st["rv"]["kind"] == "IntToFloat":
                    k = (st["rv"]["o"][0].get("k") or {})
                    cd = k.get("cdef") or ""
                    mm = _re.match(r"^core::num::<impl (\w+)>::(MIN|MAX)$", cd)
                    bounds.add((mm.group(1), mm.group(2)) if mm else ("?", cd or str(k.get("v"))))
        want = {(prim, "MAX")} | ({(prim, "MIN")} if prim.startswith("i") else set())
        cx.verdict(bounds == want, r4, "%s->%s:bounds" % (src, tgt), f.where(), "range bounds %s" % sorted(bounds),
                   "casting %s to %s checks the range against %s instead of %s" % (src, tgt, sorted(bounds), sorted(want)))


    # ---- C19.6 integer -> integer casts of the value types --------------------------------------------------------------------
    r6 = cx.rule("C19.6", "FLOW: in `impl TypeCast<IntN|UIntN> for IntM|UIntM` no unsigned value is turned into a signed one of the same or a smaller "
                 "width by a primitive `as` cast: that narrowing goes through TryFrom, because `x as i32 as u32 == x` holds for every x "
                 "and a round-trip test accepts 3000000000 as -1294967296 (signed -> unsigned under `>= 0`, and same-sign narrowing "
                 "checked by the round trip, are sound)", floor=6)
    n_int = 0
    for f in sorted(p.fns.values(), key=lambda x: x.id):
        m_ = _re.match(r"^<types::numeric::(U?Int\d+) as types::core::TypeCast<types::numeric::(U?Int\d+)>>::try_cast$", f.id)
        if not m_ or m_.group(1) == m_.group(2):
            continue
        n_int += 1
        src, tgt = m_.group(1), m_.group(2)
        lossy = []
        for gid in [f.id] + list(p.closure_children.get(f.id, ())):
            g = p.raw_fns[gid]
            for b in g.blocks:
                for st in b["stmts"]:
                    rv = st["rv"]
                    if rv.get("r") == "cast" and rv.get("kind") == "IntToInt":
                        o = rv["o"][0]
                        pl = o.get("c") or o.get("m")
                        sty = core.place_type(p, g, pl) if pl else None
                        dty = rv.get("to")
                        if sty in RANGE and dty in RANGE and (RANGE[dty][0] > RANGE[sty][0] or RANGE[dty][1] < RANGE[sty][1]) \
                                and sty[0] == "u" and dty[0] != "u":
                            # unsigned -> signed of the same or a smaller width: the reinterpretation survives the cast back
                            lossy.append("%s as %s" % (sty, dty))
        cx.verdict(not lossy, r6, "%s->%s" % (src, tgt), f.where(), "no sign-changing lossy `as` cast",
                   "casting %s to %s uses %s: a value outside the target's range is reinterpreted instead of rejected (a round-trip "
                   "comparison cannot see it)" % (src, tgt, sorted(set(lossy))))
    if n_int == 0:
        cx.bad(r6, "anchor-missing", "", "no integer-to-integer TypeCast impl found")

    # ---- C19.5 (construct shared with C05.6) ---------------------------------------------------------------------------
    from . import c05
    cx.include(c05, {"C05.6"}, "C19.5", "shared with C05.6: an index bound compares the stored values with the literal as written; a literal cast to "
               "the column type (DOUBLE -> INT truncates) makes the index order disagree with the comparison the query states", floor=13)
