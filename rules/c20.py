"""C20 — the wire protocol carries every message intact and rejects garbage."""
import re
from axvlib import core, sig, absint
from axvlib.core import AnchorMissing, op_local, op_const, enum_switches, int_switches, dominated
from . import common as K

EXPLANATION = (
    "Decides the table- and shape-part of the protocol: request opcodes written by to_bytes and dispatched by "
    "from_bytes are inverse bijections over all 12 variants; response variant -> StatusCode -> byte -> StatusCode -> "
    "variant composes to the identity; frames are read only with read_exact (header and body, both propagated) and the "
    "body allocation is dominated by the MAX_MESSAGE_SIZE test; writes are dominated by the same test; no value decoded "
    "from the wire reaches an allocation size unless bounded by the payload length; the consumed length returned by the "
    "string reader derives from the wire length only; decoder unwraps are the constant-width ones; the server answers "
    "every undecodable frame with a protocol error before leaving the loop. Thorough tier: field-sequence signatures of "
    "writer and reader per variant.")
NOT_DECIDED = "UTF-8 fidelity (the reader uses from_utf8_lossy), ragged Rows, timing/hangs of the socket layer"
ASSUMPTIONS = ["std::io::Read::read_exact fails on a short read"]

REQ, RESP, SC = "tcp::Request", "tcp::Response", "tcp::StatusCode"
PROG = [None]


def pushed_consts(f, blocks):
    """u8 constants pushed with Vec::push / discriminant constants of StatusCode in the region"""
    out = []
    for c in f.calls():
        if c.bb in blocks and c.callee.endswith("Vec::<T, A>::push") or (c.bb in blocks and c.callee.endswith("::push") and "Vec" in c.callee):
            k = op_const(c.args[1])
            kv = core.const_value(PROG[0], k)
            if kv is not None:
                out.append(("byte", kv))
            else:
                l = op_local(c.args[1])
                if l is not None:
                    for b in f.blocks:
                        for s in b["stmts"]:
                            if s["dst"][0] == l or (s["dst"][0] in f.dep_closure(l)):
                                for o in s["rv"].get("o", []) if isinstance(s["rv"].get("o"), list) else []:
                                    kk = op_const(o) or {}
                                    m = re.match(r"tcp::StatusCode::(\w+)::\{constant#0\}", str(kk.get("cdef", "")))
                                    if m:
                                        out.append(("status", m.group(1)))
    return out


def writer_by_variant(p, f, adt, status_adt=None):
    """what an encoder does for each variant of the message it encodes, however the work is split (`match self` arms, a
    status() method plus a payload writer, merged arms): the function is walked once per variant with `*self` known to be that
    variant (axvlib.absint); returns {variant: (feasible blocks, pushed [(kind, value)])} with the pushes common to all
    variants (the protocol version) removed, or None when the walk exceeds its budget"""
    from axvlib import absint
    out = {}
    sdiscr = {str(v["discr"]): v["name"] for v in p.enum_variants(status_adt)} if status_adt else {}
    for v in [x["name"] for x in p.enum_variants(adt)]:
        def hook(fn_, place, v=v):
            # any reference to the message being encoded (the encoder and the helpers inlined into it see one message)
            if len(place) >= 2 and all(pe == "*" for pe in place[1:]) and fn_.locals[place[0]].lstrip("&").startswith(adt):
                ty = core.place_type(p, fn_, place)
                if ty is not None and core.strip_ref(ty).split("<")[0] == adt:
                    return ("agg", adt, v, ())
            return None
        ps = absint.PathSearch(p, f, place_hook=hook)
        ev = set()

        def on_state(b_, env, ps=ps, ev=ev):
            c = f.call_at(b_)
            if c is None or not (c.callee.endswith("::push") and "Vec" in c.callee) or len(c.args) < 2:
                return
            k = op_const(c.args[1])
            kv = core.const_value(p, k) if k else None
            if kv is not None:
                ev.add((b_, "byte", kv))
                return
            m = re.match(r"tcp::StatusCode::(\w+)::\{constant#0\}", str((k or {}).get("cdef", "")))
            if m:
                ev.add((b_, "status", m.group(1)))
                return
            val = ps.operand(env, c.args[1])
            if val is not None and val[0] == "k":
                if str(val[1]) in sdiscr:
                    ev.add((b_, "status", sdiscr[str(val[1])]))
                else:
                    ev.add((b_, "byte", val[1]))
        try:
            F, _ = ps.explore(0, on_state=on_state)
        except absint.TooManyStates:
            return None
        # constants materialised before the push (`let s = StatusCode::X as u8; buf.push(s)`): the older extraction, on the
        # blocks this variant can reach
        out[v] = (F, ev)
    if out:
        common = set.intersection(*[e for _, e in out.values()]) if len(out) > 1 else set()
        out = {v: (F, sorted((k_, x) for b_, k_, x in e - common)) for v, (F, e) in out.items()}
    return out


def reader_by_opcode(p, f, adt, opcodes):
    """which variant a decoder builds for each opcode, however the dispatch is written (one match, a range arm re-matched inside,
    a lookup helper): the dispatch byte is the scrutinee of the decoder's widest u8 switch and its copies; the decoder is walked
    once per opcode with that byte known (axvlib.absint). Returns {opcode: (feasible blocks, built variants)} or None."""
    from axvlib import absint
    isw = list(int_switches(f, "u8"))
    if not isw:
        return None
    bi, t = max(isw, key=lambda x: len(x[1]["targets"]))
    l0 = op_local(t["o"])
    if l0 is None:
        return None
    # the byte and its copies (`match cmd { 1..=4 => .. match cmd {..} }` switches on fresh copies of one local)
    root = l0
    for _ in range(4):
        defs = [st for b_ in f.blocks for st in b_["stmts"] if st["dst"] == [root]]
        if len(defs) == 1 and defs[0]["rv"].get("r") == "use" and op_local(defs[0]["rv"]["o"][0]) is not None and \
                len((defs[0]["rv"]["o"][0].get("c") or defs[0]["rv"]["o"][0].get("m"))) == 1:
            root = op_local(defs[0]["rv"]["o"][0])
        else:
            break
    out = {}
    for v in opcodes:
        ps = absint.PathSearch(p, f, fixed_locals={root: ("k", v)})
        try:
            F, _ = ps.explore(0)
        except absint.TooManyStates:
            return None
        out[v] = (F, built_variant(f, F, adt))
    return out


def built_variant(f, blocks, adt):
    vs = set()
    for bi, s in core.region_aggregates(f, blocks, adt):
        vs.add(s["rv"]["variant"])
    # a tuple variant used as a function (`read_string(p).map(Self::Create)`): the constructor is an operand of a call
    blocks = set(blocks)
    prog = PROG[0]
    names = {v["name"] for v in prog.enum_variants(adt)} if prog is not None and adt in prog.adts else set()
    for c in f.calls():
        if c.bb not in blocks:
            continue
        for o in c.args:
            k = op_const(o) if isinstance(o, dict) else None
            fn = (k or {}).get("fn") or ""
            if fn.startswith(adt + "::") and fn[len(adt) + 2:] in names:
                vs.add(fn[len(adt) + 2:])
    return vs


def check(cx):
    p = cx.p
    PROG[0] = p
    # ---- C20.1 request opcodes -------------------------------------------------------------------
    r1 = cx.rule("C20.1", "TAB: Request::to_bytes (variant -> opcode) and Request::from_bytes (opcode -> variant) are "
                 "inverse bijections over all variants", floor=12)
    ft = cx.guard(r1, "Request::to_bytes", p.fn, REQ + "::to_bytes")
    ff = cx.guard(r1, "Request::from_bytes", p.fn, REQ + "::from_bytes")
    if ft and ff:
        sw = [x for x in enum_switches(p, ft) if x[1] == REQ]
        w = {}
        wv = writer_by_variant(p, ft, REQ)
        if wv:
            w = {v: [x for k_, x in ev if k_ == "byte"] for v, (F_, ev) in wv.items()}
        elif sw:
            for v, tgt in sw[0][2].items():
                cs = [x[1] for x in pushed_consts(ft, dominated(ft, tgt)) if x[0] == "byte"]
                w[v] = cs
        rd = {}
        isw = list(int_switches(ff, "u8"))
        # the dispatch is the widest u8 switch
        if isw:
            bi, t = max(isw, key=lambda x: len(x[1]["targets"]))
            for val, tgt in t["targets"]:
                rd[val] = built_variant(ff, dominated(ff, tgt), REQ)
            other = built_variant(ff, dominated(ff, t["otherwise"]), REQ)
            written = sorted({o for ops_ in w.values() for o in ops_})
            if written and any(not rd.get(o) for o in written):
                # some opcode has no arm of its own in the widest switch (merged into a range arm, ...): evaluate the decoder per opcode
                rbo = reader_by_opcode(p, ff, REQ, written + [v_ for v_ in range(0, 256) if v_ not in written][:3])
                if rbo:
                    rd = {o: rbo[o][1] for o in written if rbo[o][1]}
                    other = set().union(*[rbo[o][1] for o in rbo if o not in written]) if any(o not in written for o in rbo) else other
            cx.verdict(not other, r1, "unknown-opcode-rejected", ff.where(), "the default arm builds no Request",
                       "an unknown opcode is decoded as %s" % sorted(other))
        for v in [x["name"] for x in p.enum_variants(REQ)]:
            ops = w.get(v, [])
            good = len(ops) == 1 and rd.get(ops[0]) == {v}
            cx.verdict(good, r1, v, ft.where(), "opcode 0x%02X both ways" % ops[0] if len(ops) == 1 else "",
                       "Request::%s is written as %s but opcode(s) decode to %s" % (v, ops, {o: sorted(rd.get(o, [])) for o in ops}))
        cx.verdict(len({o for ops in w.values() for o in ops}) == len(w) == len(rd), r1, "bijection", ft.where(),
                   "%d variants, %d distinct opcodes, %d decoder arms" % (len(w), len({o for ops in w.values() for o in ops}), len(rd)),
                   "opcode table is not a bijection (writer %d variants, reader %d arms)" % (len(w), len(rd)))

    # ---- C20.2 response status chain ------------------------------------------------------------------
    r2 = cx.rule("C20.2", "TAB: Response::to_bytes variant -> StatusCode, StatusCode discriminants, TryFrom<u8> and "
                 "Response::from_bytes StatusCode -> variant compose to the identity", floor=12)
    gt = cx.guard(r2, "Response::to_bytes", p.fn, RESP + "::to_bytes")
    gf = cx.guard(r2, "Response::from_bytes", p.fn, RESP + "::from_bytes")
    tf = cx.guard(r2, "StatusCode::try_from", p.method, SC, "try_from", "std::convert::TryFrom")
    if gt and gf and tf:
        discr = {v["name"]: v["discr"] for v in p.enum_variants(SC)}
        w = {}
        sw = [x for x in enum_switches(p, gt) if x[1] == RESP]
        wv = writer_by_variant(p, gt, RESP, SC)
        if wv:
            w = {v: [x for k_, x in ev if k_ == "status"] for v, (F_, ev) in wv.items()}
            if sw:
                # constants materialised in a local before the push: the older extraction on the variant's own arm
                for v, tgt in sw[0][2].items():
                    if not w.get(v):
                        w[v] = [x[1] for x in pushed_consts(gt, dominated(gt, tgt)) if x[0] == "status"]
        elif sw:
            for v, tgt in sw[0][2].items():
                w[v] = [x[1] for x in pushed_consts(gt, dominated(gt, tgt)) if x[0] == "status"]
        byte2sc = {}
        isw = list(int_switches(tf, "u8"))
        if isw:
            bi, t = max(isw, key=lambda x: len(x[1]["targets"]))
            for val, tgt in t["targets"]:
                byte2sc[val] = built_variant(tf, dominated(tf, tgt), SC)
            cx.verdict(not built_variant(tf, dominated(tf, t["otherwise"]), SC), r2, "unknown-status-rejected", tf.where(),
                       "unknown byte builds no StatusCode", "an unknown status byte is accepted")
        sc2resp = {}
        sw2 = [x for x in enum_switches(p, gf) if x[1] == SC]
        if sw2:
            for v, tgt in sw2[0][2].items():
                sc2resp[v] = built_variant(gf, dominated(gf, tgt), RESP)
        for v in [x["name"] for x in p.enum_variants(RESP)]:
            scs = w.get(v, [])
            good = len(set(scs)) == 1
            chain = ""
            if good:
                sc = scs[0]
                byte = discr.get(sc)
                back_sc = byte2sc.get(byte, set())
                back = sc2resp.get(sc, set())
                good = back_sc == {sc} and back == {v}
                chain = "%s -> %s -> 0x%02X -> %s -> %s" % (v, sc, byte, sorted(back_sc), sorted(back))
            cx.verdict(good, r2, v, gt.where(), chain, "Response::%s does not survive the status chain: %s" % (v, chain or scs))

    # ---- C20.3 frame cap, read_exact ----------------------------------------------------------------------
    r3 = cx.rule("C20.3", "MPR/WMC: read_message reads header and body with read_exact, both propagated with ?, and "
                 "allocates the body only after the MAX_MESSAGE_SIZE test; write_message writes only after the same test; "
                 "no other read primitive is used in the framing functions; reader and writer cap the same quantity", floor=5)
    mx = cx.guard(r3, "MAX_MESSAGE_SIZE", p.const, "tcp::MAX_MESSAGE_SIZE")
    rm = cx.guard(r3, "read_message", p.fn, "tcp::read_message")
    if rm:
        reads = [c for c in rm.calls() if c.callee == "std::io::Read::read_exact"]
        others = [c for c in rm.calls() if (c.callee.startswith("std::io::Read::") and c.callee != "std::io::Read::read_exact")
                  or (c.callee in p.fns and c.callee.startswith("tcp::") and p.reaches(c.callee, "std::io::Read::read"))]
        prop = all(c.term["to"] is not None and rm.call_at(c.term["to"]) is not None and
                   rm.call_at(c.term["to"]).defn == core.STD_TRY_BRANCH for c in reads)
        cx.verdict(len(reads) == 2 and prop and not others, r3, "read_exact-twice-propagated", rm.where(),
                   "2 read_exact calls, each followed by ?",
                   "read_message uses %d read_exact call(s)%s%s: a truncated frame can be returned as complete" % (
                       len(reads), "" if prop else ", a result is not propagated", (" and other read primitives %s" % sorted({c.callee for c in others})) if others else ""))
        alloc = [c for c in rm.calls() if c.callee in ("std::vec::from_elem",) or c.callee.endswith("::with_capacity")]
        cmps = [(bi, s) for bi, b in enumerate(rm.blocks) for s in b["stmts"] if s["rv"].get("r") == "bin" and s["rv"]["op"] in ("Gt", "Ge", "Lt", "Le")
                and any(str((op_const(o) or {}).get("cdef", "")).endswith("MAX_MESSAGE_SIZE") or (op_const(o) or {}).get("v") == mx for o in s["rv"]["o"])]
        def behind_cap(a):
            if any(rm.dominates(bi, a.bb) for bi, _ in cmps):
                return True
            # the test may sit in a helper whose other exits are error returns (`read_len(r)?`): no feasible path reaches the
            # allocation without passing the comparison (constant-fact path search; undecided counts as a path)
            try:
                return absint.PathSearch(p, rm).find_path(0, {a.bb}, kill={bi for bi, _ in cmps}) is None
            except absint.TooManyStates:
                return False
        good = bool(alloc) and bool(cmps) and all(behind_cap(a) for a in alloc)
        # the allocation must lie on the `not too large` arm: the too-large arm returns Err
        cx.verdict(good, r3, "alloc-after-cap", rm.where(), "allocation dominated by the MAX_MESSAGE_SIZE comparison",
                   "read_message allocates the body without (or before) the MAX_MESSAGE_SIZE test: a 4-byte prefix asks for up to 4 GiB")
        if cmps:
            ops = {s["rv"]["op"] for _, s in cmps}
            cx.verdict(ops <= {"Gt"}, r3, "cap-comparator", rm.where(), "len > MAX rejects", "frame cap uses %s (expected len > MAX_MESSAGE_SIZE)" % sorted(ops))
    wm = cx.guard(r3, "write_message", p.fn, "tcp::write_message")
    if wm:
        ws = [c for c in wm.calls() if c.callee.endswith("::write_all")]
        cmps = [bi for bi, b in enumerate(wm.blocks) for s in b["stmts"] if s["rv"].get("r") == "bin" and s["rv"]["op"] in ("Gt", "Ge", "Lt", "Le")
                and any(str((op_const(o) or {}).get("cdef", "")).endswith("MAX_MESSAGE_SIZE") or (op_const(o) or {}).get("v") == mx for o in s["rv"]["o"])]
        cx.verdict(len(ws) >= 2 and bool(cmps) and all(any(wm.dominates(b, w.bb) for b in cmps) for w in ws), r3, "write-after-cap", wm.where(),
                   "writes dominated by the size test", "write_message writes a frame without the MAX_MESSAGE_SIZE test")

    # writer and reader apply the cap to the same quantity - the body length as it stands (len() on the one side, the decoded
    # prefix on the other), with no arithmetic on it: otherwise a frame one side accepts is rejected by the other
    if rm and wm:
        def capped_operand(fn_):
            out = []
            for b in fn_.blocks:
                for st in b["stmts"]:
                    rv = st["rv"]
                    if rv.get("r") == "bin" and rv["op"] in ("Gt", "Ge", "Lt", "Le") and any(
                            str((op_const(o) or {}).get("cdef", "")).endswith("MAX_MESSAGE_SIZE") or (op_const(o) or {}).get("v") == mx for o in rv["o"]):
                        for o in rv["o"]:
                            l = op_local(o)
                            if l is None:
                                continue
                            arith = [s2["rv"]["op"] for b2 in fn_.blocks for s2 in b2["stmts"] if s2["dst"] and s2["dst"][0] in (fn_.dep_closure(l) | {l})
                                     and s2["rv"].get("r") == "bin" and s2["rv"]["op"] in ("Add", "AddWithOverflow", "Sub", "SubWithOverflow", "Mul", "MulWithOverflow")]
                            out.append((rv["op"], tuple(sorted(set(arith)))))
            return out
        a_r, a_w = capped_operand(rm), capped_operand(wm)
        cx.verdict(bool(a_r) and bool(a_w) and set(a_r) == set(a_w) and not any(x[1] for x in a_r + a_w), r3, "cap-same-quantity", rm.where(),
                   "both sides compare the plain body length (%s)" % sorted(set(a_r)),
                   "read_message and write_message do not cap the same quantity (reader %s, writer %s; arithmetic on the compared length is "
                   "listed): a maximal frame the sender accepts is rejected by the receiver, or the other way round" % (a_r, a_w))

    # ---- C20.3b the frame reader is the caller's reader; C20.3c a length prefix is the byte length ------------------------
    r3b = cx.rule("C20.3b", "FLOW: every call of read_message hands on the reader the caller was given (a parameter or a field), never an "
                  "adaptor built for the one frame (a BufReader created per call reads ahead into the next frame and drops those "
                  "bytes); every u32 length prefix written by the tcp encoders is the len() of the byte/str slice whose bytes follow", floor=3)
    for c in K.sites(p, "tcp::read_message"):
        if c.callee != "tcp::read_message":
            continue
        prov = c.fn.nearest_calls(op_local(c.args[0]))
        built = sorted(x[1] for x in prov if x[0] == "call")
        cx.verdict(not built and any(x[0] == "param" for x in prov), r3b, "reader@" + c.fn.id, c.where(), "the caller's own reader is read",
                   "%s reads the frame through a reader it builds itself (%s): what that adaptor buffers beyond this frame is lost "
                   "with it, the next frame starts in the middle of the stream" % (c.fn.id, ", ".join(built) or "unknown origin"))
    LEN_OK = ("core::slice::<impl [T]>::len", "core::str::<impl str>::len", "std::vec::Vec::<T, A>::len", "std::string::String::len")
    n_pref = 0
    for f in sorted(p.fns.values(), key=lambda x: x.id):
        if not f.id.startswith("tcp::") or f.id.startswith("tcp::session") or f.root:
            continue
        for c in f.calls():
            if not c.callee.endswith("<impl u32>::to_le_bytes"):
                continue
            # only prefixes that are followed by the bytes of a slice: look for a len()-like provenance at all
            prov = f.nearest_calls(op_local(c.args[0]))
            calls = sorted(x[1] for x in prov if x[0] == "call")
            lens = [x for x in calls if x in LEN_OK]
            counts = [x for x in calls if x.rsplit("::", 1)[-1] in ("count", "chars", "len_utf16", "capacity")]
            if not lens and not counts:
                continue        # a plain count field (rows, columns), not a byte-length prefix
            n_pref += 1
            cx.verdict(bool(lens) and not counts and len(calls) == len(lens), r3b, "prefix@%s#%d" % (f.id, n_pref), c.where(),
                       "prefix = len() of the bytes", "%s writes a length prefix computed by %s, not the byte length of what follows: "
                       "for non-ASCII text the reader cuts the string short and reads the rest as the next field" % (f.id, ", ".join(calls)))
    if n_pref == 0:
        cx.bad(r3b, "prefix:none", "", "no length-prefixed writer found in the tcp encoders")

    # ---- C20.4 bounded allocation ----------------------------------------------------------------------------
    r4 = cx.rule("C20.4", "FLOW(taint): in the tcp decoders no value produced by from_le_bytes reaches "
                 "Vec::with_capacity / vec! unless it passed through min() with a payload-length-derived bound or is "
                 "dominated by a comparison with the cap", floor=3)
    for f in K.each_fn(p):
        if not f.id.startswith("tcp::") or f.id.startswith("tcp::session"):
            continue
        srcs = {op_local({"c": c.dst}) for c in f.calls() if c.callee.endswith("::from_le_bytes")}
        if not srcs:
            continue
        sinks = [c for c in f.calls() if c.callee.endswith("::with_capacity") or c.callee == "std::vec::from_elem"]
        for i, c in enumerate(sinks):
            arg = c.args[0] if c.callee.endswith("::with_capacity") else c.args[1]
            l = op_local(arg)
            if l is None:
                continue
            cl = f.dep_closure(l)
            if not (cl & srcs):
                continue
            # sanitiser: the argument is the result of Ord::min / usize::min with another operand derived from a len()
            mins = [m for m in f.calls() if m.callee.endswith("::min") and op_local({"c": m.dst}) in (cl | {l})]
            sane = False
            for m in mins:
                others = [op_local(o) for o in m.args]
                for ol in others:
                    if ol is None:
                        continue
                    ocl = f.dep_closure(ol)
                    lens = [x for x in f.calls() if x.callee.endswith("::len") and op_local({"c": x.dst}) in ocl]
                    if lens and not (ocl & srcs):
                        sane = True
            # or a dominating comparison against the cap (read_message)
            capcmp = any(f.dominates(bi, c.bb) for bi, b in enumerate(f.blocks) for s in b["stmts"]
                         if s["rv"].get("r") == "bin" and s["rv"]["op"] in ("Gt", "Ge", "Lt", "Le") and s["dst"][0] is not None
                         and any(op_local(o) is not None and (f.dep_closure(op_local(o)) & srcs) for o in s["rv"]["o"])
                         and any(str((op_const(o) or {}).get("cdef", "")).endswith("MAX_MESSAGE_SIZE") for o in s["rv"]["o"]))
            cx.verdict(sane or capcmp, r4, "%s#%d" % (f.id, i), c.where(), "bounded by %s" % ("min(.., payload len)" if sane else "the frame cap"),
                       "a count decoded from the wire reaches an allocation size unbounded (D15)")

    # ---- C20.4b loops driven by a wire count -------------------------------------------------------------------------
    r4b = cx.rule("C20.4b", "LOOP(taint): every decoder loop whose iteration count comes from the wire either consumes payload in each "
                  "iteration (every path once round the loop passes a length-checked reader whose error leaves the decoder) or is "
                  "dominated by a comparison of that count with a payload-length-derived bound whose failing arm leaves the decoder: "
                  "a few bytes of garbage cannot buy millions of iterations/allocations", floor=3)
    from axvlib.core import natural_loops
    READERS = {"tcp::read_string_with_len", "tcp::read_string"}
    for f in K.each_fn(p):
        if not f.id.startswith("tcp::") or f.id.startswith("tcp::session") or f.root:
            continue
        srcs = {op_local({"c": c.dst}) for c in f.calls() if c.callee.endswith("::from_le_bytes")}
        if not srcs:
            continue
        loops = natural_loops(f)
        n = 0
        for h, body in loops:
            nx = [c for c in f.calls() if c.bb == h and c.defn == "std::iter::Iterator::next" and any("ops::Range<" in a for a in c.gargs)]
            if not nx:
                continue
            rng = f.dep_closure(op_local(nx[0].args[0]))
            ends = []
            for b in f.blocks:
                for st in b["stmts"]:
                    if st["rv"].get("r") == "agg" and st["rv"].get("adt") == "std::ops::Range" and len(st["dst"]) == 1 and st["dst"][0] in rng:
                        el = op_local(st["rv"]["o"][1])
                        if el is not None:
                            ends.append(el)
            tainted = [e for e in ends if (f.dep_closure(e) | {e}) & srcs]
            if not tainted:
                continue
            n += 1
            tl = (f.dep_closure(tainted[0]) | {tainted[0]})
            # (a) one trip round the loop without passing a consuming reader?
            t = f.blocks[nx[0].term["to"]]["term"] if nx[0].term["to"] is not None else None
            some = None
            for bi, adt, m, oth, src in enum_switches(p, f):
                if bi == nx[0].term["to"] and adt == "std::option::Option":
                    some = m.get("Some", oth)
            cons = {c.bb for c in f.calls() if c.bb in body and c.callee in READERS and (f.reachable(c.term["to"]) & f.err_blocks())}
            free_trip = False
            if some is not None:
                seen_b, work = set(), [some]
                while work:
                    u = work.pop()
                    if u in seen_b or u in cons or u not in body:
                        continue
                    seen_b.add(u)
                    for v in f.succ(u):
                        if v == h:
                            free_trip = True
                        elif not f.blocks[v]["cleanup"]:
                            work.append(v)
            # (b) a dominating comparison of the count with a payload-derived bound, one arm leaving the decoder
            guarded = False
            lens = {op_local({"c": c.dst}) for c in f.calls() if c.callee.endswith("::len")}
            for bi, b in enumerate(f.blocks):
                tm = b["term"]
                if tm["t"] != "switch" or not f.dominates(bi, h) or bi == h:
                    continue
                sl = op_local(tm["o"])
                if sl is None:
                    continue
                for b2 in f.blocks:
                    for st in b2["stmts"]:
                        if st["dst"] == [sl] and st["rv"].get("r") == "bin" and st["rv"]["op"] in ("Gt", "Ge", "Lt", "Le"):
                            ops = [op_local(o) for o in st["rv"]["o"]]
                            if None in ops:
                                continue
                            a_t = [bool((f.dep_closure(o) | {o}) & srcs & tl) for o in ops]
                            a_l = [bool((f.dep_closure(o) | {o}) & lens) and not ((f.dep_closure(o) | {o}) & srcs & tl) for o in ops]
                            if (a_t[0] and a_l[1]) or (a_t[1] and a_l[0]):
                                arms = [x[1] for x in tm["targets"]] + [tm["otherwise"]]
                                if any(h not in f.reachable(a) for a in arms):
                                    guarded = True
            cx.verdict((not free_trip) or guarded, r4b, "%s:loop#%d" % (f.id, n), f.where(),
                       "each iteration consumes payload" if not free_trip else "count compared with a payload-derived bound first",
                       "%s has a loop whose count comes from the wire and which can go round without consuming payload (e.g. zero "
                       "columns, 4 billion rows in a 10-byte frame): memory and time are not bounded by the frame size (D38)" % f.id)

    # ---- C20.5 decoder panics / consumed length ------------------------------------------------------------------
    r5 = cx.rule("C20.5", "PANIC/FLOW: unwrap in the decoders occurs only on <[u8; N]>::try_from of a constant-width "
                 "range (budgeted per function); the consumed length returned by read_string_with_len derives from the "
                 "wire length, not from the decoded String", floor=4)
    budget = {(REQ + "::from_bytes", "Result::unwrap"): 2, (RESP + "::from_bytes", "Result::unwrap"): 6,
              ("tcp::read_string_with_len", "Result::unwrap"): 1}
    K.check_panic_budget(cx, r5, p, [REQ + "::from_bytes", RESP + "::from_bytes", "tcp::read_string_with_len", "tcp::read_string",
                                     "tcp::read_message", "tcp::recv_request", "tcp::recv_response"], budget,
                         "array conversion of a slice whose constant width a dominating length check covers")
    rs = cx.guard(r5, "read_string_with_len", p.fn, "tcp::read_string_with_len")
    if rs:
        good = False
        why = "no (String, usize) result found"
        for b in rs.blocks:
            for s in b["stmts"]:
                rv = s["rv"]
                if rv.get("r") == "agg" and rv.get("akind") == "tuple" and len(rv["o"]) == 2:
                    l = op_local(rv["o"][1])
                    if l is None:
                        continue
                    cl = rs.dep_closure(l)
                    from_wire = any(op_local({"c": c.dst}) in cl for c in rs.calls() if c.callee.endswith("::from_le_bytes"))
                    from_string = any(op_local({"c": c.dst}) in cl for c in rs.calls()
                                      if c.callee in ("std::string::String::len", "core::str::<impl str>::len") or "from_utf8" in c.callee or "into_owned" in c.callee)
                    good = from_wire and not from_string
                    why = "consumed = 4 + wire length" if good else "consumed length depends on %s" % ("the decoded String" if from_string else "neither")
        cx.verdict(good, r5, "consumed-length-from-wire", rs.where(), why,
                   "read_string_with_len reports a consumed length that %s: with invalid UTF-8 (lossy decoding changes the "
                   "length) the Rows decoder's offset drifts and slices out of range" % why)

    # ---- C20.6 the server answers garbage -----------------------------------------------------------------------------
    r6 = cx.rule("C20.6", "MPT: in the server's client loop every request-decoding error arm other than closed/EOF/I-O "
                 "reaches send_response before the loop is left", floor=1)
    fl = cx.guard(r6, "run_client_loop", p.fn, "axmos_server::run_client_loop")
    if fl:
        recv = [c for c in fl.calls() if c.callee == "tcp::recv_request"]
        send = {c.bb for c in fl.calls() if c.callee == "tcp::send_response"}
        good = bool(recv) and bool(send)
        detail = ""
        if good:
            # the Err arm of recv_request: blocks reachable from the call's continuation through the Err match arm
            sws = [x for x in enum_switches(p, fl) if x[1] == "std::result::Result" and x[4][0] == op_local({"c": recv[0].dst})]
            good = bool(sws)
            if good:
                err_t = sws[0][2].get("Err")
                # inside the Err arm: the loop may be left without an answer only through the arms that
                # test for ConnectionClosed / Io (including `matches!(e, TcpError::Io(_))`); every other way
                # out must pass send_response. Jump threading resolves the bool that matches! materialises.
                excused = set()
                for bi, adt, m, oth, _ in enum_switches(p, fl):
                    if adt == "tcp::TcpError" and (fl.dominates(err_t, bi) or bi == err_t):
                        for v in ("ConnectionClosed", "Io"):
                            if v in m:
                                excused.add(m[v])
                region = dominated(fl, err_t)
                try:
                    # paths that known flags rule out are discarded (a predicate helper returns false on its `_` arm)
                    reach = absint.PathSearch(p, fl).feasible_blocks(err_t, kill=send | excused)
                except absint.TooManyStates:
                    reach = fl.reachable_threaded(err_t, blocked=send | excused)
                leaves = [b for b in reach if b not in region or fl.blocks[b]["term"]["t"] == "ret"]
                good = not leaves and bool(send & region)
                detail = "every way out of the decode-error arm other than ConnectionClosed/Io passes send_response" if good else \
                    "a decode-error path leaves the loop through bb%s without send_response" % sorted(leaves)[:3]
        cx.verdict(good, r6, "decode-error-answered", fl.where(), detail,
                   "an undecodable request frame is dropped without a protocol error being sent (%s) (D16)" % detail)


    # ---- C20.7 field-sequence signatures ---------------------------------------------------------------------------
    r7 = cx.rule("C20.7", "SIG: per variant, the sequence of wire items written by to_bytes after the opcode/status byte "
                 "(u32le/u64le/f64le/str32, repetitions by loop nesting) equals the sequence consumed by the from_bytes arm "
                 "that the opcode/status tables route it to", floor=24)
    SF = {"tcp::write_string", "tcp::read_string", "tcp::read_string_with_len"}
    ft, ff = p.fns.get(REQ + "::to_bytes"), p.fns.get(REQ + "::from_bytes")
    if ft and ff:
        sw = [x for x in enum_switches(p, ft) if x[1] == REQ]
        isw = list(int_switches(ff, "u8"))
        if sw and isw:
            bi, t = max(isw, key=lambda x: len(x[1]["targets"]))
            rd_t = {val: tgt for val, tgt in t["targets"]}
            wv = writer_by_variant(p, ft, REQ)
            for v, tgt in sw[0][2].items():
                if wv and v in wv:
                    # the items written on the blocks this variant can reach, whole function (version and opcode bytes first)
                    ws = sig.signature(ft, 0, wv[v][0], "w", SF, p)
                    ws = ws[2:].strip() if ws.startswith("u8") else ws
                    ops = [x for k_, x in wv[v][1] if k_ == "byte"]
                else:
                    ws = sig.signature(ft, tgt, dominated(ft, tgt), "w", SF, p)
                    ops = [x[1] for x in pushed_consts(ft, dominated(ft, tgt)) if x[0] == "byte"]
                if len(ops) == 1 and ops[0] not in rd_t:
                    # no arm of its own in the widest switch: the items consumed on the blocks this opcode can reach
                    rbo7 = reader_by_opcode(p, ff, REQ, [ops[0]])
                    if rbo7 and rbo7[ops[0]][1] == {v}:
                        rs = sig.signature(ff, 0, rbo7[ops[0]][0], "r", SF, p)
                        body = ws[2:].strip() if ws.startswith("u8") else ws
                        cx.verdict(body == rs, r7, "Request::" + v, ft.where(), "both sides: <%s>" % body,
                                   "Request::%s is written as <%s> but read as <%s>" % (v, body, rs))
                        continue
                if len(ops) != 1 or ops[0] not in rd_t:
                    cx.bad(r7, "Request::" + v, ft.where(), "no unique opcode/decoder arm")
                    continue
                rs = sig.signature(ff, rd_t[ops[0]], dominated(ff, rd_t[ops[0]]), "r", SF, p)
                body = ws[2:].strip() if ws.startswith("u8") else ws
                cx.verdict(body == rs, r7, "Request::" + v, ft.where(), "both sides: <%s>" % body,
                           "Request::%s is written as <%s> but read as <%s>" % (v, body, rs))
    gt, gf = p.fns.get(RESP + "::to_bytes"), p.fns.get(RESP + "::from_bytes")
    if gt and gf:
        sw = [x for x in enum_switches(p, gt) if x[1] == RESP]
        sw2 = [x for x in enum_switches(p, gf) if x[1] == SC]
        if sw and sw2:
            wv = writer_by_variant(p, gt, RESP, SC)
            for v, tgt in sw[0][2].items():
                if wv and v in wv and [x for k_, x in wv[v][1] if k_ == "status"]:
                    ws = sig.signature(gt, 0, wv[v][0], "w", SF, p)
                    ws = ws[2:].strip() if ws.startswith("u8") else ws
                    scs = [x for k_, x in wv[v][1] if k_ == "status"]
                else:
                    ws = sig.signature(gt, tgt, dominated(gt, tgt), "w", SF, p)
                    scs = [x[1] for x in pushed_consts(gt, dominated(gt, tgt)) if x[0] == "status"]
                if len(set(scs)) != 1 or scs[0] not in sw2[0][2]:
                    cx.bad(r7, "Response::" + v, gt.where(), "no unique status/decoder arm")
                    continue
                rt = sw2[0][2][scs[0]]
                rs = sig.signature(gf, rt, dominated(gf, rt), "r", SF, p)
                body = ws[2:].strip() if ws.startswith("u8") else ws
                cx.verdict(body == rs, r7, "Response::" + v, gt.where(), "both sides: <%s>" % body,
                           "Response::%s is written as <%s> but read as <%s>" % (v, body, rs))

    # ---- C20.8 the version byte is compared for equality ----------------------------------------------------------------
    r8 = cx.rule("C20.8", "TAB: both decoders test the version byte against PROTOCOL_VERSION for (in)equality - an ordering test "
                 "(`version > PROTOCOL_VERSION`) lets foreign version bytes through as valid frames - and the mismatch builds VersionMismatch", floor=2)
    for adt in (REQ, RESP):
        f = cx.guard(r8, adt + "::from_bytes", p.fn, adt + "::from_bytes")
        if not f:
            continue

        def is_version(o, f=f, depth=0):
            k = op_const(o) or {}
            if k:
                return str(k.get("cdef", "")).endswith("PROTOCOL_VERSION")
            l = op_local(o)
            if l is None or depth > 3:
                return False
            defs = [st for b_ in f.blocks for st in b_["stmts"] if st["dst"] == [l]]
            return len(defs) == 1 and defs[0]["rv"].get("r") in ("use", "cast") and is_version(defs[0]["rv"]["o"][0], f, depth + 1)
        cmps = [st for b_ in f.blocks for st in b_["stmts"] if st["rv"].get("r") == "bin" and st["rv"]["op"] in ("Eq", "Ne", "Lt", "Le", "Gt", "Ge")
                and any(is_version(o) for o in st["rv"]["o"])]
        ver = core.const_value(p, {"cdef": "tcp::PROTOCOL_VERSION"})
        sw = [t for _, t in int_switches(f, "u8") if ver is not None and len(t["targets"]) == 1 and str(t["targets"][0][0]) == str(ver)] if not cmps else []
        mism = [s_ for _, s_ in core.region_aggregates(f, range(len(f.blocks))) if s_["rv"].get("variant") == "VersionMismatch"]
        ordering = sorted({st["rv"]["op"] for st in cmps if st["rv"]["op"] not in ("Eq", "Ne")})
        nm = adt.rsplit("::", 1)[-1]
        cx.verdict((bool(cmps) or bool(sw)) and not ordering and bool(mism), r8, nm + ":version-equality", f.where(),
                   "version %s PROTOCOL_VERSION, mismatch -> VersionMismatch" % ("/".join(sorted({st["rv"]["op"] for st in cmps})) or "matched against"),
                   "%s::from_bytes %s: frames with a foreign version byte are decoded as valid messages" % (
                       nm, ("compares the version byte with PROTOCOL_VERSION by %s" % ordering) if ordering else
                       ("does not compare the version byte with PROTOCOL_VERSION" if not (cmps or sw) else "never builds VersionMismatch")))
