"""C12 — configuration changes performance, never results (partly claimed)."""
from axvlib import core
from axvlib.core import AnchorMissing, op_local, op_const, enum_switches, dominated
from . import common as K

EXPLANATION = (
    "Decides that no modification can escape write-back whatever the cache size: every write latch is built only by "
    "the three TryFrom impls, each dominated by mark_dirty; raw mutable byte access outside them happens only at the "
    "write-back sites; an evicted dirty frame is always written; eviction removes only free (unpinned) frames and "
    "sweeps every frame before reporting out-of-memory; the checkpoint writes every dirty frame; recycled and fresh "
    "pages are both marked dirty; run-time geometry (page size, min keys, siblings) is read from the persisted header "
    "and not from the configuration passed to open(); the constant relations between size limits hold.")
NOT_DECIDED = "equality of query results across page sizes / cache sizes / pool sizes (value-level)"
ASSUMPTIONS = []

FR = "multithreading::frames::"


def check(cx):
    p = cx.p
    # ---- C12.1 dirty marking -----------------------------------------------------------------
    r1 = cx.rule("C12.1", "MPR/WMC: WriteLatch::new is called only from the TryFrom<&MemFrame> impls, each dominated by "
                 "mark_dirty; with_bytes_mut (raw mutable bytes) is used only by the write-back sites", floor=5)
    wl = FR + "WriteLatch::<P>::new"
    cx.guard(r1, wl, p.fn, wl)
    def latch_site(c, depth=0):
        f = c.fn
        ok_owner = f.impl_trait == "std::convert::TryFrom" and "WriteLatch" in (f.impl_self or "")
        if not ok_owner and depth < 2 and f.kind != "closure" and f.id in p.raw_fns:
            # a helper of the frame module that only takes the latch (called, or handed to `Option::map` as a function item):
            # the obligation moves to every place that uses the helper - each an owner, each behind mark_dirty
            refs = [r for r in p.call_sites_of(f.id) if (r.fn.root or r.fn.id) != f.id]
            if refs and all(r.fn.file == f.file for r in refs):
                for r in refs:
                    latch_site(r, depth + 1)
                return
        md = [x for x in f.calls() if x.callee == FR + "MemFrame::mark_dirty"]
        good = ok_owner and bool(md) and any(f.dominates(m.bb, c.bb) for m in md)
        cx.verdict(good, r1, "latch@" + f.id, c.where(), "mark_dirty dominates WriteLatch::new",
                   "a write latch is handed out without marking the frame dirty: the modification is lost when the "
                   "frame is evicted or at the next checkpoint")
    for c in K.sites(p, wl):
        latch_site(c)
    wbm = FR + "MemFrame::with_bytes_mut"
    cx.guard(r1, wbm, p.fn, wbm)
    ALLOWED = {K.PAGER_FLUSH: "checkpoint write-back", K.PAGER + "::cache_frame": "write-back of an evicted frame"}
    for c in K.callers_of(p, wbm, set(ALLOWED)):
        cx.verdict(c in ALLOWED, r1, "with_bytes_mut<-" + c, p.where_of(c), ALLOWED.get(c, ""),
                   "%s takes raw mutable bytes of a frame without the dirty-marking latch" % c)

    # ---- C12.2 eviction ------------------------------------------------------------------------
    r2 = cx.rule("C12.2", "MPT: in cache_frame an evicted frame that is dirty is written (write_block) before it is "
                 "dropped; PageCache::evict removes a frame only after is_free() and visits every frame (bounded sweep "
                 "with wrap-around) before it reports out-of-memory", floor=4)
    f = cx.guard(r2, "cache_frame", p.fn, K.PAGER + "::cache_frame")
    if f:
        isd = [c for c in f.calls() if c.callee == FR + "MemFrame::is_dirty"]
        wb = [c for c in f.calls() if c.callee == FR + "MemFrame::with_bytes_mut" or c.callee == FR + "MemFrame::with_bytes"]
        good = bool(isd) and bool(wb)
        if good:
            # the switch on is_dirty(): its true arm must pass the write on every success path
            c0 = isd[0]
            res = op_local({"c": c0.dst})
            sw = [(bi, b["term"]) for bi, b in enumerate(f.blocks) if b["term"]["t"] == "switch" and op_local(b["term"]["o"]) == res]
            good = bool(sw)
            for bi, t in sw:
                true_t = t["otherwise"]
                hit = {w.bb for w in wb}
                good = good and not f.success_returns_from(true_t, blocked=hit)
            # and the closure passed really writes the block
            wrote = any(p.reaches(t, K.PAGER + "::write_block") for w in wb for t in p.targets(w) if t != w.callee)
            good = good and wrote
        cx.verdict(good, r2, "evicted-dirty-is-written", f.where(), "dirty victim -> write_block on every success path",
                   "an evicted dirty frame can be dropped without being written: data is lost under cache pressure")
        ins = [c for c in f.calls() if c.callee == "io::cache::PageCache::insert"]
        cx.verdict(bool(ins), r2, "insert-returns-victim", f.where(), "victim comes from PageCache::insert", "cache_frame no longer takes the victim from insert()")
    fe = cx.guard(r2, "evict", p.fn, "io::cache::PageCache::evict")
    if fe:
        rem = [c for c in fe.calls() if c.callee.endswith("::swap_remove_index") or c.callee.endswith("::shift_remove_index")]
        free_tests = [c for c in fe.calls() if c.callee == FR + "MemFrame::is_free" or any(
            t == "io::cache::PageCache::evict::{closure#0}" for t in p.targets(c))]
        ok_free = p.reaches(fe.id, FR + "MemFrame::is_free")
        # the search may live in a method of the cache that evict calls (`let Some(i) = self.find_free_index() else ..`): the
        # removed index then has to be what that search returned, and the search has to ask is_free()
        searchers = {}
        for c in fe.calls():
            g = p.raw_fns.get(c.callee)
            if g is not None and g.impl_adt == fe.impl_adt and g.id != fe.id and p.reaches(g.id, FR + "MemFrame::is_free"):
                searchers[g.id] = c

        def from_search(r):
            l = op_local(r.args[1]) if len(r.args) > 1 else None
            if l is None:
                return False
            prov = fe.nearest_calls(l)
            return any(("call", g) in prov and fe.dominates(c.bb, r.bb) for g, c in searchers.items())
        good = bool(rem) and ok_free and all(any(fe.dominates(t.bb, r.bb) for t in free_tests) or from_search(r) for r in rem)
        # what a search returns has to be the frame index that was tested: Iterator::position counts the elements it skipped, which
        # is that index only while the sweep starts at zero
        counted = []
        for g_ in [fe] + [p.fn(x) for x in searchers]:
            ret_prov = {x for k_, x in g_.nearest_calls(0) if k_ == "call"} if g_ is not fe else set()
            for r in (rem if g_ is fe else []):
                if len(r.args) > 1 and op_local(r.args[1]) is not None:
                    ret_prov |= {x for k_, x in fe.nearest_calls(op_local(r.args[1])) if k_ == "call"}
            counted += [x for x in ret_prov if x.rsplit("::", 1)[-1] in ("position", "rposition") and "Iterator" in x or x.endswith("Iterator::position")]
        if counted:
            good = False
        cx.verdict(good, r2, "evict-only-free", fe.where(), "removal dominated by the is_free() test",
                   "evict removes a frame without testing is_free(): a pinned page can be evicted while a writer holds it")
        # bounded sweep with wrap-around: the index is computed with Rem by the number of frames
        fam = [fe] + [p.fn(g) for g in searchers]
        fam = fam + [p.fn(c) for g in list(fam) for c in p.closure_children.get(g.id, ())]
        rems = [s for g in fam for b in g.blocks for s in b["stmts"] if s["rv"].get("r") == "bin" and s["rv"]["op"] == "Rem"]
        lens = [c for g in fam for c in g.calls() if c.callee.endswith("::len")]
        cx.verdict(bool(rems) and bool(lens), r2, "evict-sweeps-all-frames", fe.where(), "index = (cursor + step) % len",
                   "the eviction sweep does not wrap around: once the cursor passed the last frame every insertion "
                   "into a full cache fails with out-of-memory (D31)")

    # ---- C12.3 checkpoint writes every dirty frame -----------------------------------------------
    r3 = cx.rule("C12.3", "MPT: Pager::flush iterates all frames returned by PageCache::clear and writes each dirty one", floor=1)
    fp = cx.guard(r3, "Pager::flush", p.fn, K.PAGER_FLUSH)
    if fp:
        clr = [c for c in fp.calls() if c.callee == "io::cache::PageCache::clear"]
        isd = [c for c in fp.calls() if c.callee == FR + "MemFrame::is_dirty"]
        wb = [c for c in fp.calls() if c.callee == FR + "MemFrame::with_bytes_mut"]
        good = bool(clr) and bool(isd) and bool(wb) and all(any(fp.dominates(c.bb, w.bb) for c in clr) for w in wb)
        cx.verdict(good, r3, "checkpoint-write-back", fp.where(), "clear() -> for each dirty frame -> write_block",
                   "the checkpoint no longer writes every dirty frame it takes out of the cache")

    # ---- C12.4 geometry comes from the persisted header ------------------------------------------------
    r4 = cx.rule("C12.4", "FLOW: Pager::{page_size, min_keys_per_page, num_siblings_per_side} read the persisted header; "
                 "Pager::open does not take a DBConfig; Database::open passes its config only to the worker pool", floor=4)
    for name, fld in (("page_size", "page_size"), ("min_keys_per_page", "min_keys"), ("num_siblings_per_side", "num_siblings_per_side")):
        g = cx.guard(r4, name, p.fn, K.PAGER + "::" + name)
        if g:
            reads = any(isinstance(pe, str) and pe.startswith("." + fld + ":storage::page::PageZeroHeader")
                        for b in g.blocks for s in b["stmts"] for o in (s["rv"].get("o") or []) if isinstance(s["rv"].get("o"), list)
                        for pe in (o.get("c") or o.get("m") or [])[1:])
            cx.verdict(reads and p.reaches(g.id, K.PAGER + "::header_unchecked"), r4, name, g.where(), "reads header." + fld,
                       "Pager::%s no longer reads the persisted header field %s" % (name, fld))
    fo = cx.guard(r4, "Database::open", p.fn, "Database::open")
    if fo:
        # config is parameter 2; its uses: only field pool_size (-> SharedTaskRunner::new) and the struct copy into Self
        uses = set()
        for b in fo.blocks:
            for s in b["stmts"]:
                for o in (s["rv"].get("o") or []) if isinstance(s["rv"].get("o"), list) else []:
                    pl = o.get("c") or o.get("m") or []
                    if pl and pl[0] == 2:
                        uses.add(pl[1] if len(pl) > 1 else "<whole>")
        bad = {u for u in uses if isinstance(u, str) and u.startswith(".") and not u.startswith(".pool_size:")}
        cx.verdict(not bad, r4, "open-ignores-geometry-config", fo.where(), "config uses: %s" % sorted(uses),
                   "Database::open reads %s from the configuration passed by the caller instead of the persisted header" % sorted(bad))

    # ---- C12.5 constants -----------------------------------------------------------------------------------
    r5 = cx.rule("C12.5", "CONST: MIN_PAGE_SIZE <= DEFAULT_PAGE_SIZE <= MAX_PAGE_SIZE <= 65536; PAGE_ALIGNMENT divides "
                 "MIN_PAGE_SIZE; MINIMUM_KEYS_PER_PAGE <= DEFAULT_BTREE_MIN_KEYS; header sizes fit the smallest page", floor=4)
    try:
        mn, df, mx = p.const("common::MIN_PAGE_SIZE"), p.const("common::DEFAULT_PAGE_SIZE"), p.const("common::MAX_PAGE_SIZE")
        al = p.const("common::PAGE_ALIGNMENT")
        cx.verdict(mn <= df <= mx <= 65536, r5, "page-size-order", "", "%d <= %d <= %d <= 65536" % (mn, df, mx), "page size limits out of order")
        cx.verdict(al > 0 and mn % al == 0, r5, "alignment", "", "PAGE_ALIGNMENT %d divides MIN_PAGE_SIZE" % al, "PAGE_ALIGNMENT does not divide MIN_PAGE_SIZE")
        cx.verdict(p.const("tree::bplustree::MINIMUM_KEYS_PER_PAGE") <= p.const("common::DEFAULT_BTREE_MIN_KEYS"), r5, "min-keys", "",
                   "MINIMUM_KEYS_PER_PAGE <= DEFAULT_BTREE_MIN_KEYS", "default min keys below the tree's minimum")
        cx.verdict(p.const("storage::page::PAGE_ZERO_HEADER_SIZE") < mn and p.const("storage::page::BTREE_PAGE_HEADER_SIZE") < mn, r5,
                   "headers-fit", "", "headers fit the smallest page", "a page header is larger than MIN_PAGE_SIZE")
    except AnchorMissing as e:
        cx.bad(r5, "anchor-missing", "", str(e))

    from . import c11
    cx.include(c11, {"C11.3"}, "C12.6", "shared with C11.3: fresh and recycled pages alike are marked dirty by allocate_page (otherwise a recycled page that is not written again is lost at eviction or checkpoint)", floor=4)

    # ---- C12.7 (construct shared with C09.3) ---------------------------------------------------------------------
    from . import c09
    cx.include(c09, {"C09.3"}, "C12.7", "shared with C09.3: the cache capacity is configuration — written only by its setter and never "
               "sized from a value widened from a narrower persisted field; a capacity that wraps to a handful of frames makes every "
               "statement fail, i.e. the configured cache size changes results", floor=2)

    # ---- C12.8 a page handed out is a page of the cache --------------------------------------------------------------------
    r8 = cx.rule("C12.8", "FLOW: every frame that Pager::read_page returns on success is the frame the cache holds "
                 "(the result of PageCache::get after caching); a frame handed out beside the cache is never written back by eviction "
                 "or by a checkpoint, so everything written through it is lost - an explicit out-of-memory error is the permitted outcome "
                 "of a full cache", floor=1)
    for name in ("read_page",):
        f = cx.guard(r8, name, p.fn, K.PAGER + "::" + name)
        if not f:
            continue
        outs = []
        for b in f.blocks:
            for st in b["stmts"]:
                if st["dst"] == [0] and st["rv"].get("r") == "agg" and st["rv"].get("variant") == "Ok":
                    for o in st["rv"]["o"]:
                        l = op_local(o)
                        if l is not None:
                            outs.append({x[1] for x in f.nearest_calls(l) if x[0] == "call"} | {"param" for x in f.nearest_calls(l) if x[0] == "param"})
        good = bool(outs) and all(o and all(x.endswith("PageCache::get") for x in o) for o in outs)
        cx.verdict(good, r8, name, f.where(), "%d success value(s), all from PageCache::get" % len(outs),
                   "Pager::%s can return a frame that does not come from the cache (%s): writes through it never reach the data file" % (
                       name, sorted(set().union(*outs)) if outs else "no Ok value found"))

    # ---- C12.9 (construct shared with C09.1) ---------------------------------------------------------------------------
    cx.include(c09, {"C09.1"}, "C12.9", "shared with C09.1: a checkpoint always writes page zero; the header also carries the transaction counters and "
               "the aborted bitmap, which change without dirtying a page, so a checkpoint that writes it only when pages were dirty loses them "
               "(with a large cache nothing may be dirty at that moment: the outcome then depends on the cache size)", floor=2)

    # ---- C12.10 (construct shared with C16.3b) -----------------------------------------------------------------------
    from . import c16
    cx.include(c16, {"C16.3b"}, "C12.10", "shared with C16.3b: no narrow counter of unbounded events in the library; data must survive any amount of "
               "cache eviction, and a u16 eviction counter that panics when it wraps makes a small cache fail where a large one works", floor=2)

    # ---- C12.11 / C12.12 (constructs shared with C19.3 and C11.3b) ------------------------------------------------------
    from . import c19, c11
    cx.include(c19, {"C19.3"}, "C12.11", "shared with C19.3: the key comparator sees whole keys; how much of a cell stays in the leaf depends on page "
               "size and min_keys, so a comparator that truncates spilled keys makes results depend on the configuration", floor=6)
    cx.include(c11, {"C11.3b"}, "C12.12", "shared with C11.3b: dealloc_page does not rely on a frame staying resident across calls that can evict; "
               "with a small cache the frame is gone and the page is freed unconverted, with a large cache it works", floor=1)
