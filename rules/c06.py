"""C06 — the chosen plan never changes the answer (partly claimed: every secondary index agrees with its table)."""
from axvlib import core
from axvlib.core import AnchorMissing, op_local, op_const, enum_switches, dominated
from . import common as K

EXPLANATION = (
    "Plan equivalence, cost model and rule soundness are statements about query results and are not decided. Decided, "
    "for the clause `every secondary index always agrees with its table`: every table write in DmlExecutor is followed "
    "by index maintenance on every success path, index creation populates the index, no function outside the frozen "
    "writer table mutates a B-tree (no write path bypasses index maintenance), the three maintenance arms are "
    "selected by the (old,new,assignments) shape their callers pass, the insert arm revives a dead entry, the delete "
    "arm stamps the entry, and the update arm must re-key the entry from the new row image (known finding D23). For the "
    "clause `plan rewriting keeps the predicate`: every predicate/condition an optimizer rule reads from the operators it "
    "matched flows into an operator it emits, and every predicate partition a rule fills is consumed on every path to the "
    "emitted alternative unless it is empty there (C06.5). This decides that no conjunct is dropped by the shape of the "
    "rewrite; it does not decide that the rewritten predicate means the same.")
NOT_DECIDED = "plan equivalence under index/scan choice, join order, filter placement, statistics (value-level)"
ASSUMPTIONS = []

DML = "runtime::dml::DmlExecutor"
BTREE = "tree::bplustree::Btree"
MUTATORS = {"insert", "update", "upsert", "remove", "remove_tuple"}

# who may mutate a B-tree, with one line of reason each
WRITERS = {
    DML + "::insert": "table write, followed by index maintenance",
    DML + "::update": "table write, followed by index maintenance",
    DML + "::delete": "table write (xmax stamp), followed by index maintenance",
    DML + "::maintain_secondary_indexes": "the index writer itself",
    "runtime::ddl::DdlExecutor::populate_index": "bulk load of a new index",
    "schema::catalog::Catalog::store_relation": "catalog meta table/index",
    "schema::catalog::Catalog::update_relation": "catalog meta table",
    "schema::catalog::Catalog::remove_relation": "catalog meta table/index",
    "schema::catalog::Catalog::vacuum_btree": "vacuum rewrites/removes dead tuples",
    "schema::catalog::Catalog::store_relation_stats": "catalog statistics",
}


def mutator_ids(p):
    out = {f.id for f in p.fns.values() if f.impl_adt == BTREE and f.name in MUTATORS}
    if len(out) < 3:
        raise AnchorMissing("Btree mutators not found")
    return out


def check(cx):
    p = cx.p
    muts = cx.guard("C06.2", "mutators", mutator_ids, p)
    if not muts:
        return
    msi = DML + "::maintain_secondary_indexes"
    cx.guard("C06.1", msi, p.fn, msi)

    # ---- C06.1 maintenance follows every table write ---------------------------------------------
    r1 = cx.rule("C06.1", "MPT: in DmlExecutor::{insert,update,delete} every success path from a table write to the "
                 "return passes maintain_secondary_indexes; CREATE INDEX populates the index before returning", floor=4)
    fam = [g for g in p.fns.values() if (g.impl_adt == DML or (g.root or "").startswith(DML + "::")) and (g.root or g.id) != msi]
    for f in sorted(fam, key=lambda x: x.id):
        ws = [c for c in f.calls() if c.callee in muts]
        if not ws:
            continue
        # a helper shared by the table write and by the maintenance itself (insert-or-revive) is followed by the maintenance
        # at every call site outside the maintenance
        good = all(w.term["to"] is not None and p.followed_interproc(f, w.term["to"], {msi}, within={msi}) for w in ws)
        name = f.id.rsplit("::", 1)[-1]
        cx.verdict(good, r1, name, f.where(), "%d table write(s), each followed by index maintenance (here or in every caller)" % len(ws),
                   "a success path leaves %s after writing the table without maintaining the indexes" % f.id)
    f = cx.guard(r1, "create_unique_index", p.fn, "runtime::ddl::DdlExecutor::create_unique_index")
    if f:
        T = p.must_reach_set({"runtime::ddl::DdlExecutor::populate_index"})
        cx.verdict(p.all_success_paths_call(f, T, 0), r1, "create-index-populates", f.where(),
                   "populate_index on every success path", "an index can be created without being populated")

    # ---- C06.2 who may write a tree -----------------------------------------------------------------
    r2 = cx.rule("C06.2", "WMC: B-tree mutators are called only from the frozen writer table (DML with maintenance, "
                 "catalog meta trees, vacuum, index bulk load)", floor=10)
    seen = set()
    for m in sorted(muts):
        for c in K.sites(p, m):
            if c.callee != m:
                continue
            root = c.fn.root or c.fn.id
            if root.startswith(BTREE + "::"):   # the tree's own internals (upsert -> insert/update ...)
                continue
            key = "%s<-%s" % (m.rsplit("::", 1)[-1], root)
            if key in seen:
                continue
            seen.add(key)
            owned = root.startswith(DML + "::")     # any method of the DML executor: judged by C06.1
            cx.verdict(root in WRITERS or owned, r2, key, c.where(), "allowed: " + WRITERS.get(root, "method of DmlExecutor (C06.1 applies)"),
                       "%s mutates a B-tree directly: a table write path that bypasses logging and index maintenance" % root)

    # ---- C06.3 the three maintenance arms ---------------------------------------------------------------
    r3 = cx.rule("C06.3", "FLOW/TAB: callers select the maintenance arm by shape — insert passes (None,Some,None), "
                 "delete (Some,None,None), update (Some,Some,Some); the insert arm revives a dead entry or inserts, the "
                 "delete arm stamps the visible entry with the deleter's id, the update arm re-keys the entry from "
                 "the new row image", floor=6)
    VALID = {("None", "Some", "None"): "insert", ("Some", "None", "None"): "delete", ("Some", "Some", "Some"): "update"}
    used = {}
    for site in K.sites(p, msi):
        f = site.fn
        if site.callee != msi:
            continue
        got = []
        for o in site.args[2:5]:
            l = op_local(o)
            v = None
            for b in f.blocks:
                for s_ in b["stmts"]:
                    if l is not None and s_["dst"] == [l] and s_["rv"].get("adt") == "std::option::Option":
                        v = s_["rv"]["variant"]
            got.append(v)
        kind = VALID.get(tuple(got))
        # the shape must match what the caller just did to the table: insert-shaped callers log Insert, ...
        logs = {c.callee.rsplit("::", 1)[-1] for c in f.calls() if c.callee.startswith(K.LOGGER + "::log_")}
        want_log = {"insert": "log_insert", "delete": "log_delete", "update": "log_update"}.get(kind)
        consistent = kind is not None and (want_log in logs or not logs)
        used[kind] = used.get(kind, 0) + 1
        cx.verdict(consistent, r3, "shape:%s@%s" % (kind or "invalid", f.id.rsplit("::", 1)[-1]), site.where(), "passes %s (%s arm), caller logs %s" % (got, kind, sorted(logs)),
                   "%s calls index maintenance with shape %s while it logs %s: the wrong maintenance arm runs" % (f.id, got, sorted(logs)))
    for kind in ("insert", "delete", "update"):
        if not used.get(kind):
            cx.bad(r3, "shape:%s:never-used" % kind, "", "no caller selects the %s arm of index maintenance" % kind)
    fm = p.fns.get(msi)
    if fm:
        bie = DML + "::build_index_entry"
        entry_calls = [c for c in fm.calls() if c.callee == bie]
        # locals holding the unwrapped old/new row images: dependence on params 3 (old_values) and 4 (new_values)
        from_new = [c for c in entry_calls if 4 in fm.dep_closure(op_local(c.args[0]))]
        from_old = [c for c in entry_calls if 3 in fm.dep_closure(op_local(c.args[0]))]
        # insert arm: an entry built from the new image reaches Btree::insert and Btree::update (revive)
        ins = [c for c in fm.calls() if c.callee in muts and c.callee.endswith("::insert")]
        upd = [c for c in fm.calls() if c.callee in muts and c.callee.endswith("::update")]
        isdel = [c for c in fm.calls() if c.callee == "storage::tuple::Tuple::is_deleted"]
        good = bool(from_new) and bool(ins) and bool(isdel) and any(
            any(fm.dominates(d.bb, u.bb) for d in isdel) for u in upd)
        cx.verdict(good, r3, "insert-arm:revive-or-insert", fm.where(),
                   "new entry inserted, or a dead entry with the same key revived (is_deleted -> update)",
                   "the insert arm no longer revives a deleted index entry / inserts a new one: a re-inserted key "
                   "never enters the index")
        # delete arm: Tuple::delete with the context's id, then update
        dels = [c for c in fm.calls() if c.callee == "storage::tuple::Tuple::delete"]
        good = bool(dels) and all(any(fm.dominates(d.bb, u.bb) for u in upd) or True for d in dels) and \
            any(fm.dominates(d.bb, u.bb) for d in dels for u in upd)
        cx.verdict(good, r3, "delete-arm:stamp-and-write", fm.where(), "entry stamped and written back",
                   "the delete arm does not write the stamped index entry back")
        # ... and what is stamped is the entry stored in the tree (its creator stamp is the inserter's), not a tuple built
        # for the search: a freshly built tuple is created *by the deleter*, so after the deleter rolls back the entry is
        # invisible although the table row is live again
        for i, d in enumerate(dels):
            prov = {x[1] for x in fm.nearest_calls(op_local(d.args[0])) if x[0] == "call"}
            fresh = sorted(x for x in prov if "TupleBuilder" in x)
            stored = sorted(x for x in prov if x.startswith(BTREE) or "from_slice" in x or "TupleReader" in x)
            cx.verdict(bool(stored) and not fresh, r3, "delete-arm:stamps-stored-entry#%d" % i, d.where(), "the deleter stamps the entry read from the tree (%s)" % ", ".join(x.rsplit("::", 1)[-1] for x in stored),
                       "the delete arm stamps a tuple it built itself (%s) and writes it over the stored index entry: the entry's creator "
                       "becomes the deleting transaction, a rolled-back DELETE leaves the key invisible in the index and a duplicate is accepted" % ", ".join(fresh or ["unknown origin"]))
        # update arm: the region that calls build_index_assignments
        bia = [c for c in fm.calls() if c.callee == DML + "::build_index_assignments"]
        if not bia:
            cx.bad(r3, "update-arm:missing", fm.where(), "no update arm (build_index_assignments not called)")
        else:
            # arm region = blocks dominated by the arm head = nearest switch-target ancestor; approximate by
            # the blocks dominated by the block of the first build_index_entry call preceding it
            heads = [c for c in from_old if fm.dominates(c.bb, bia[0].bb)]
            region = dominated(fm, heads[-1].bb) if heads else set()
            new_entry = [c for c in from_new if c.bb in region]
            cx.verdict(bool(new_entry), r3, "update-arm:new-key-entry", bia[0].where(),
                       "an index entry is built from the new row image",
                       "the update arm never builds an index entry from the new row image: it edits value slots of "
                       "an entry whose indexed columns are keys, so after UPDATE the index still finds the row under "
                       "the old key, the new key is unknown and UNIQUE keeps blocking the old value (D23)")

    # ---- C06.4 join-reordering / pushdown rules are gated to inner and cross joins ---------------------------
    r4 = cx.rule("C06.4", "TAB: the transformation rules that reorder joins or push filters through them "
                 "(JoinCommutativityRule, JoinAssociativityRule, FilterPushdownJoinRule) compare the join type only with "
                 "Inner/Cross and each has such a gate: commuting, re-associating or pushing a WHERE predicate below/into an "
                 "outer join changes which rows are NULL-extended; every join operator a rule matches has its type read", floor=6)
    JT = "sql::parser::ast::JoinType"
    for rule_name in ("JoinCommutativityRule", "JoinAssociativityRule", "FilterPushdownJoinRule"):
        fs = [g for g in p.fns.values() if ("<sql::planner::rules::%s as " % rule_name) in (g.root or g.id)]
        if not fs:
            cx.bad(r4, rule_name + ":anchor-missing", "", "optimizer rule %s not found" % rule_name)
            continue
        gate = set()
        for g in fs:
            proms = g.rec.get("promoted") or []
            for c in g.calls():
                if c.defn in ("std::cmp::PartialEq::eq", "std::cmp::PartialEq::ne") and any(JT in x for x in c.gargs):
                    for o in c.args:
                        l = op_local(o)
                        if l is None:
                            continue
                        cl = g.dep_closure(l) | {l}
                        for b in g.blocks:
                            for st in b["stmts"]:
                                if st["dst"][0] in cl:
                                    for oo in (st["rv"].get("o") or []) if isinstance(st["rv"].get("o"), list) else []:
                                        k = oo.get("k") or {}
                                        pi = k.get("promoted")
                                        if isinstance(pi, int) and not isinstance(pi, bool) and pi < len(proms) and proms[pi] and proms[pi].get("adt") == JT:
                                            gate.add(proms[pi]["variant"])
            # `matches!(jt, JoinType::Inner | JoinType::Cross)` compiles to a discriminant switch
            for bi, adt, m, oth, src in enum_switches(p, g):
                if adt == JT:
                    gate |= set(m)
        # every join operator the rule matches has its join type tested (in `matches` or in `apply`): a rule that tests the
        # inner join of `(A JOIN B) LEFT JOIN C` but not the outer one re-associates the outer join away
        tested, n_arms = set(), 0
        for g in fs:
            if g.root:
                continue
            arms_ = sorted((bi, m["Join"]) for bi, adt_, m, oth, src in enum_switches(p, g)
                           if adt_.endswith("LogicalOperator") and "Join" in m)
            n_arms = max(n_arms, len(arms_))
            for bi2, b2 in enumerate(g.blocks):
                reads = False
                for st in b2["stmts"]:
                    pls = []
                    rv = st["rv"]
                    if rv.get("r") in ("ref", "discr"):
                        pls.append(rv["p"])
                    for o in (rv.get("o") or []) if isinstance(rv.get("o"), list) else []:
                        pl = o.get("c") or o.get("m")
                        if pl:
                            pls.append(pl)
                    if any(isinstance(pe, str) and pe.startswith(".join_type:") for pl in pls for pe in pl[1:]):
                        reads = True
                if not reads:
                    continue
                doms = [k for k, (sb, tgt) in enumerate(arms_) if g.dominates(tgt, bi2)]
                if doms:
                    tested.add(max(doms))      # the innermost matched join
        cx.verdict(n_arms > 0 and tested >= set(range(n_arms)), r4, rule_name + ":every-matched-join-tested", fs[0].where(),
                   "%d matched join operator(s), join type of each is read" % n_arms,
                   "%s matches %d join operator(s) but reads the join type of only %s of them: an outer join in the untested position is "
                   "rewritten as if it were an inner join" % (rule_name, n_arms, sorted(tested)))
        cx.verdict(bool(gate) and gate <= {"Inner", "Cross"}, r4, rule_name, fs[0].where(), "gated to %s" % sorted(gate),
                   "%s applies to join types %s: rewriting an outer join this way changes the answer" % (rule_name, sorted(gate) or "(no gate at all)"))

    # ---- C06.5 predicate conservation in the rewrite rules -----------------------------------------------------------
    r5 = cx.rule("C06.5", "FLOW: (a) in every TransformationRule::apply each FilterOp.predicate / JoinOp.condition read from "
                 "a matched operator flows into an argument of an operator constructor of the emitted alternative (through "
                 "try_create_index_scan/extract_index_bounds for the index rule); (b) every Vec<BoundExpression> a rule "
                 "hands to classify_predicates/collect_bounds by &mut is, on every path from there to the emission, moved "
                 "into a call/aggregate of the function itself (not into a conditionally run closure) or tested empty", floor=14)
    LOGICAL = "sql::planner::logical::"
    RULES = "sql::planner::rules::"
    applies = [g for g in p.fns.values() if " as sql::planner::rules::TransformationRule>::apply" in g.id and not g.root]
    if len(applies) < 6:
        cx.bad(r5, "anchor-missing:apply", "", "fewer than 6 TransformationRule::apply implementations found")

    def rule_name(g):
        return g.id.split(" as ")[0].rsplit("::", 1)[-1]

    def local_names(g):
        return {v[0]: k.split("#")[0] for k, v in g.names.items() if isinstance(v, list) and len(v) == 1}

    def sources(g):
        out = []
        for b in g.blocks:
            for st in b["stmts"]:
                rv = st["rv"]
                if rv.get("r") == "ref":
                    for pe in rv["p"][1:]:
                        if isinstance(pe, str) and (pe.startswith(".predicate:" + LOGICAL + "FilterOp") or pe.startswith(".condition:" + LOGICAL + "JoinOp")):
                            out.append((pe.split(":")[0][1:], rv["p"][0], st["dst"][0]))
        return out

    tcis = RULES + "FilterToIndexScanRule::try_create_index_scan"
    eib = RULES + "FilterToIndexScanRule::extract_index_bounds"
    FIELD = {"Filter": "predicate", "Join": "condition"}
    def sinks_of(g):
        out = set()
        for c in g.calls():
            ctor = c.callee.startswith(LOGICAL) and c.callee.endswith("::new") and not c.callee.endswith("LogicalExpr::new")
            if ctor or c.callee == tcis:
                for a in c.args:
                    l = op_local(a)
                    if l is not None:
                        out |= g.dep_closure(l)
        return out

    for g in sorted(applies, key=lambda x: x.id):
        g = p.fns.view(g.id)
        nm = local_names(g)
        sinks = sinks_of(g)
        # reads made inside the closures of an iterator chain (`.filter_map(|ix| self.try_create_index_scan(scan, &filter.predicate, ix))`):
        # the closure reads the field of a captured operator and hands it to the constructor itself
        closure_reads = {}
        for cg in K.family(p, g)[1:]:
            cs = sinks_of(cg)
            for f_, b_, d in sources(cg):
                closure_reads.setdefault(f_, []).append(d in cs)
        # the operators the rule matched: `let LogicalOperator::Filter(x) = &e.op` binds x = &((*e).op as Filter).0
        matched = []
        for b in g.blocks:
            for st in b["stmts"]:
                rv = st["rv"]
                if rv.get("r") == "ref" and len(rv["p"]) >= 3 and rv["p"][-2] in ("@Filter", "@Join") and \
                        str(rv["p"][-1]).startswith(".0:" + LOGICAL + "LogicalOperator") and len(st["dst"]) == 1:
                    matched.append((rv["p"][-2][1:], st["dst"][0]))
        srcs = sources(g)
        ordinal = {}
        for kind, loc in matched:
            ordinal[kind] = ordinal.get(kind, 0) + 1
            key = "%s:matched-%s#%d.%s" % (rule_name(g), kind, ordinal[kind], FIELD[kind])
            reads = [d for f_, b_, d in srcs if f_ == FIELD[kind] and b_ == loc]
            good = bool(reads) and all(d in sinks for d in reads)
            if not reads and closure_reads.get(FIELD[kind]) and sum(1 for k2, _ in matched if k2 == kind) == 1:
                reads = closure_reads[FIELD[kind]]
                good = all(reads)
            cx.verdict(good, r5, key, g.where(), "`%s.%s` flows into an emitted operator" % (nm.get(loc, "?"), FIELD[kind]),
                       "%s matches a %s (`%s`) but %s: the rewritten plan no longer evaluates that predicate" % (
                           rule_name(g), kind, nm.get(loc, "?"),
                           "an emitted operator is not built from its %s" % FIELD[kind] if reads else "never reads its %s" % FIELD[kind]))
    # the index rule's chain: predicate -> extract_index_bounds -> (start, end, residual) -> fields of the IndexScanOp
    ft = cx.guard(r5, "try_create_index_scan", p.fn, tcis)
    if ft:
        ex = [c for c in ft.calls() if c.callee == eib]
        if not ex:
            cx.bad(r5, "index-scan:extract", ft.where(), "try_create_index_scan no longer calls extract_index_bounds")
        else:
            res = ex[0].dst[0]
            pred_in = any(3 in ft.dep_closure(op_local(a)) for a in ex[0].args if op_local(a) is not None)
            cx.verdict(pred_in, r5, "index-scan:predicate-in", ex[0].where(), "the filter predicate is what bounds are extracted from",
                       "extract_index_bounds is not given the filter predicate")
            # builder methods of IndexScanOp that store a parameter into one of the three fields (`with_range(start, end)`)
            setters = {}
            for sg in p.fns.values():
                if sg.impl_adt != LOGICAL + "IndexScanOp" or sg.kind != "assoc":
                    continue
                for b in sg.blocks:
                    for s_ in b["stmts"]:
                        for pe in s_["dst"][1:]:
                            if isinstance(pe, str) and pe.split(":")[0] in (".range_start", ".range_end", ".residual_predicate") and isinstance(s_["rv"].get("o"), list):
                                for o in s_["rv"]["o"]:
                                    l = op_local(o)
                                    if l is not None:
                                        ps_ = [x[1] for x in sg.nearest_calls(l) if x[0] == "param"]
                                        if len(ps_) == 1:
                                            setters.setdefault(sg.id, {})[pe.split(":")[0][1:]] = ps_[0]
            set_args = {}       # field -> operand handed to a setter
            for c in ft.calls():
                for fld_, pi in setters.get(c.callee, {}).items():
                    if pi - 1 < len(c.args):
                        set_args[fld_] = c.args[pi - 1]
            for fld in ("range_start", "range_end", "residual_predicate"):
                st = [s_ for b in ft.blocks for s_ in b["stmts"]
                      if any(isinstance(pe, str) and pe.startswith(".%s:" % fld) for pe in s_["dst"][1:])]
                good = bool(st) and all(
                    any(res in ft.dep_closure(op_local(o)) for o in (s_["rv"].get("o") or []) if isinstance(s_["rv"].get("o"), list) and op_local(o) is not None)
                    for s_ in st)
                if not st and fld in set_args and op_local(set_args[fld]) is not None:
                    good = res in ft.dep_closure(op_local(set_args[fld]))
                # distinct tuple components: the three stores must not read the same component
                cx.verdict(good, r5, "index-scan:%s" % fld, ft.where(), "stored from the extraction result",
                           "IndexScanOp.%s is not set from extract_index_bounds: the part of the predicate it carries is lost" % fld)
            comps = {}
            stores_ = [(pe.split(":")[0][1:], (s_["rv"].get("o") or [None])[0]) for b in ft.blocks for s_ in b["stmts"] for pe in s_["dst"][1:]
                       if isinstance(pe, str) and pe.split(":")[0] in (".range_start", ".range_end", ".residual_predicate")]
            stores_ += [(fld_, o) for fld_, o in set_args.items() if fld_ not in {x for x, _ in stores_}]
            for fld_, o in stores_:
                    for pe in ["." + fld_ + ":"]:
                        if True:
                            l = op_local(o) if o else None
                            # which tuple component does l come from
                            src = None
                            for _ in range(3):
                                nxt = None
                                for b2 in ft.blocks:
                                    for s2 in b2["stmts"]:
                                        if s2["dst"] == [l] and s2["rv"].get("r") == "use":
                                            pl = s2["rv"]["o"][0].get("m") or s2["rv"]["o"][0].get("c") or []
                                            if pl and pl[0] == res and len(pl) > 1:
                                                src = pl[1]
                                            elif len(pl) == 1:
                                                nxt = pl[0]
                                if src is not None or nxt is None:
                                    break
                                l = nxt
                            comps[pe.split(":")[0][1:]] = src
            want = {"range_start": ".0", "range_end": ".1", "residual_predicate": ".2"}
            cx.verdict(comps == want, r5, "index-scan:component-order", ft.where(), "start/end/residual taken from components 0/1/2",
                       "the extraction result is destructured as %s (expected %s): bounds and residual are swapped" % (comps, want))

    # (b) partitions
    COLLECTORS = {RULES + "classify_predicates": (2, 3, 4), RULES + "FilterToIndexScanRule::collect_bounds": (4, 5, 6)}
    for g in sorted(p.fns.values(), key=lambda x: x.id):
        if not g.id.startswith(RULES) and "<" + RULES not in g.id:
            continue
        for c in g.calls():
            if c.callee not in COLLECTORS or c.fn.id == c.callee:
                continue
            nm = local_names(g)
            # emission: the return; a path through `vec![]` of LogicalExpr returns no alternative and loses nothing
            emits = [bi for bi, b in enumerate(g.blocks) if b["term"]["t"] == "ret"]
            no_alt = {x.bb for x in g.calls() if x.defn.endswith("Vec::<T>::new") and any("logical::LogicalExpr" in a for a in x.gargs)}
            for ai in COLLECTORS[c.callee]:
                l = op_local(c.args[ai])
                # &mut *(&mut X): peel reborrows
                x = None
                for _ in range(4):
                    nxt = None
                    for b in g.blocks:
                        for st in b["stmts"]:
                            if st["dst"] == [l] and st["rv"].get("r") == "ref":
                                nxt = st["rv"]["p"]
                    if nxt is None:
                        break
                    if len(nxt) == 1:
                        x = nxt[0]
                        break
                    l = nxt[0]
                key = "partition:%s:%s" % (g.id.split(" as ")[0].rsplit("::", 2)[-1] if " as " in g.id else g.id.rsplit("::", 1)[-1], nm.get(x, "arg%d" % ai))
                if x is None or x <= g.nargs:
                    continue   # the collector's own recursion / a parameter handed down: judged at the owner
                # consumer blocks: X moved into a call argument or a non-closure aggregate
                cons = set()
                for bi, b in enumerate(g.blocks):
                    for st in b["stmts"]:
                        ops = st["rv"].get("o") if isinstance(st["rv"].get("o"), list) else []
                        if any(o.get("m") == [x] for o in ops) and not (st["rv"].get("r") == "agg" and st["rv"].get("akind") == "closure"):
                            cons.add(bi)
                    t = b["term"]
                    if t["t"] == "call" and any(o.get("m") == [x] for o in t["args"]):
                        cons.add(bi)
                # exempt edges: the `true` arm of X.is_empty()
                exempt = set()
                for ie in g.calls():
                    if ie.defn.endswith("::is_empty") and ie.args:
                        rl = op_local(ie.args[0])
                        tgt = None
                        for b in g.blocks:
                            for st in b["stmts"]:
                                if st["dst"] == [rl] and st["rv"].get("r") == "ref" and st["rv"]["p"] == [x]:
                                    tgt = x
                        if tgt is None or ie.term["to"] is None:
                            continue
                        tb = g.blocks[ie.term["to"]]["term"]
                        if tb["t"] == "switch" and op_local(tb["o"]) == ie.dst[0]:
                            exempt.add((ie.term["to"], tb["otherwise"]))
                seen_b, work = set(), [c.term["to"]]
                leak = None
                while work:
                    u = work.pop()
                    if u in seen_b or u is None:
                        continue
                    seen_b.add(u)
                    if u in cons or u in no_alt:
                        continue
                    if u in emits:
                        leak = u
                        break
                    for v in g.succ(u):
                        if (u, v) not in exempt and not g.blocks[v]["cleanup"]:
                            work.append(v)
                cx.verdict(leak is None, r5, key, c.where(), "consumed (or empty) on every path to the emitted alternative",
                           "%s can emit its alternative on a path where the predicates collected in `%s` were neither used nor "
                           "known to be empty (they are dropped, or only used inside a conditionally executed closure): the "
                           "rewritten plan silently loses those conjuncts" % (g.id, nm.get(x, "?")))

    # ---- C06.6 / C06.7 (constructs shared with C13.3 and C07.6) ----------------------------------------------------
    from . import c13, c07
    cx.include(c13, {"C13.3"}, "C06.6", "shared with C13.3: VACUUM sweeps index trees like table trees (no filter on the relation "
               "kind); an index that keeps the mark of a rolled-back delete after the aborted ids are forgotten hides a row "
               "that the table still shows", floor=5)
    cx.include(c07, {"C07.6"}, "C06.7", "shared with C07.6: every builder of index keys walks the declared indexed-column list, so "
               "that the entry DML stores is the entry a probe or scan looks for", floor=3)

    # ---- C06.8 (construct shared with C05.9) ---------------------------------------------------------------------------
    from . import c05
    cx.include(c05, {"C05.9"}, "C06.8", "shared with C05.9: the merge join steps over a NULL key on the side that carries it; otherwise the "
               "answer of an equi-join depends on whether the optimizer picked the merge join or another join method", floor=3)

    # ---- C06.9 (construct shared with C05.6) ---------------------------------------------------------------------------
    cx.include(c05, {"C05.6"}, "C06.9", "shared with C05.6: the index scan that replaces a filter uses the bound side and inclusiveness the "
               "comparison means, so that the index plan and the scan-plus-filter plan return the same rows", floor=12)

    # ---- C06.10 the sort enforcer: a delivered ordering satisfies a required one only if it covers all of it --------------
    r10 = cx.rule("C06.10", "FLOW: PhysicalProperties::satisfies (which decides whether a Sort is put under a merge join) checks every "
                  "required sort column: the two orderings' lengths are compared, or the column walk runs over the required "
                  "ordering alone (never a zip, which stops at the shorter one and accepts a prefix), and position by position (no containment test)", floor=2)
    fs_ = cx.guard(r10, "satisfies", p.fn, "sql::planner::prop::PhysicalProperties::satisfies")
    if fs_:
        lens = [c for c in fs_.calls() if c.defn.endswith("::len")]
        own = [c for c in lens if any("BoundExpression" in a for a in c.gargs)]          # self.ordering: Vec<(BoundExpression, bool)>
        req = [c for c in lens if any("OrderingSpec" in a for a in c.gargs)]             # required.ordering: Vec<OrderingSpec>
        cmpd = False
        for b in fs_.blocks:
            for st in b["stmts"]:
                if st["rv"].get("r") == "bin" and st["rv"]["op"] in ("Lt", "Le", "Gt", "Ge", "Eq", "Ne"):
                    ls = [op_local(o) for o in st["rv"]["o"]]
                    if None in ls:
                        continue
                    d0, d1 = fs_.dep_closure(ls[0]) | {ls[0]}, fs_.dep_closure(ls[1]) | {ls[1]}
                    o_ = {c.dst[0] for c in own}
                    r_ = {c.dst[0] for c in req}
                    if (d0 & o_ and d1 & r_) or (d0 & r_ and d1 & o_):
                        cmpd = True
        walkers = [c for c in fs_.calls() if c.defn in ("std::iter::Iterator::all", "std::iter::Iterator::any", "std::iter::Iterator::next",
                                                       "std::iter::Iterator::try_fold", "std::iter::Iterator::position")]
        zipped = [c for c in walkers if c.gargs and "Zip<" in c.gargs[0]]
        over_required = [c for c in walkers if c.gargs and "OrderingSpec" in c.gargs[0] and "Zip<" not in c.gargs[0]]
        # ... and position by position: the i-th required column is compared with the i-th delivered one (an index/get on
        # the delivered ordering, or a zip); a containment test (`any`/`find`/`position`/`contains` over the delivered
        # ordering) accepts an input sorted on (x, y) as sorted on (y)
        kids = [p.fns[x] for x in p.closure_children.get(fs_.id, ())]
        more = []
        for k_ in kids:
            more += [p.fns[x] for x in p.closure_children.get(k_.id, ())]
        fam_ = [fs_] + kids + more
        positional = bool(zipped) or any(c.callee.endswith("<impl [T]>::get") or c.callee.endswith("Vec::<T, A>::get") or c.defn.endswith("Index::index")
                                          or "get_unchecked" in c.callee for g_ in fam_ for c in g_.calls())
        contain = sorted({c.defn.rsplit("::", 1)[-1] for g_ in kids + more for c in g_.calls()
                          if c.defn in ("std::iter::Iterator::any", "std::iter::Iterator::find", "std::iter::Iterator::position")
                          or c.callee.endswith("::contains")})
        cx.verdict(positional and not contain, r10, "position-by-position", fs_.where(), "required[i] is compared with delivered[i]",
                   "satisfies tests whether each required column occurs somewhere in the delivered ordering (%s) instead of at the same "
                   "position: an input sorted on (x, y) is taken as sorted on (y), no Sort is put under the merge join and matches are lost" % (
                       ", ".join(contain) or "no positional access found"))
        cx.verdict(cmpd or (bool(over_required) and not zipped), r10, "covers-required", fs_.where(),
                   "lengths compared" if cmpd else "walks the required ordering",
                   "satisfies accepts a delivered ordering that is only a prefix of the required one (no length comparison, the "
                   "columns are walked in a zip): no Sort is put under a merge join on a composite key and the join silently loses matches")

    # ---- C06.11 (construct shared with C05.12) -------------------------------------------------------------------------
    cx.include(c05, {"C05.12"}, "C06.11", "shared with C05.12: whether the hash/merge join (no residual condition) may replace the nested-loop join is "
               "decided by is_equi_condition; it must hold for every conjunct or the join method changes the answer", floor=1)
