"""C04 — transactions read a consistent snapshot (snapshot isolation)."""
from axvlib import core
from axvlib.core import AnchorMissing, op_local, op_const
from . import common as K
from . import dec_refs

EXPLANATION = (
    "Decides the snapshot discipline: one snapshot per transaction (only begin() builds one), every production read "
    "decodes through the snapshot-aware decoder and the snapshot it uses is the executing context's, the "
    "snapshot-unaware decoders are confined to a frozen list of callers with reasons, writers are recorded in the "
    "write set that commit validates (first-committer-wins), Committed is stored only on the Allowed arm of the "
    "validation, a handle can be finished once, the persisted last-committed id only moves forward, and the first "
    "deleter of a row wins. Thorough tier: decision tables of the visibility predicates against the reference.")
NOT_DECIDED = "which schedule yields which read (the interleaving semantics proper)"
ASSUMPTIONS = []

SNAP = "multithreading::coordinator::Snapshot"
TR = "storage::tuple::TupleReader::<'a>::"
PFS = TR + "parse_for_snapshot"

# snapshot-unaware decoders / predicates and who may call them (one line of reason each)
UNAWARE = {
    TR + "parse_last_version": {
        "storage::tuple::Row::from_bytes_checked": "raw decode helper (itself confined below)",
        "storage::tuple::Tuple::add_version_with": "builds the next version on top of the newest one",
        "storage::tuple::Tuple::as_tuple_ref_with": "raw view helper (itself confined below)",
        "storage::tuple::Tuple::has_history_with": "asks whether deltas exist, no values read",
        "storage::tuple::Tuple::num_versions_with": "diagnostics",
        "storage::tuple::Tuple::vaccum_with": "trims history below the horizon",
        PFS: "layout bootstrap of the snapshot-aware decoder",
        TR + "parse_version": "dead helper",
    },
    "storage::tuple::Row::from_bytes_checked": {
        "io::recovery::WalRecuperator::redo_insert": "log images are decoded as written (fix 78ff00f): the analysis pass, not MVCC, decides which records apply",
        "io::recovery::WalRecuperator::redo_update": "log images are decoded as written",
        "io::recovery::WalRecuperator::undo_delete": "log images are decoded as written",
        "io::recovery::WalRecuperator::undo_update": "log images are decoded as written",
    },
    "storage::tuple::Tuple::as_tuple_ref_with": {},
    "tree::bplustree::Btree::<Acc>::get_tuple_at_unchecked": {
        "runtime::dml::DmlExecutor::insert": "recovery-idempotence probe: is the key physically present",
        "runtime::dml::DmlExecutor::maintain_secondary_indexes": "probe of the physical index entry",
    },
    "storage::tuple::Tuple::is_visible": {},
    "storage::tuple::TupleRef::<'a>::is_visible": {},
    "storage::tuple::Tuple::is_deleted": {
        "runtime::dml::DmlExecutor::insert": "un-delete of a physically present key",
        "runtime::dml::DmlExecutor::maintain_secondary_indexes": "probe of the physical index entry",
        "schema::catalog::Catalog::vacuum_btree::{closure#0}": "vacuum candidate test (see C13.1)",
        "storage::tuple::Tuple::delete": "first deleter wins",
    },
    "storage::tuple::TupleRef::<'a>::is_tuple_deleted": {},
    SNAP + "::is_tuple_visible": {},
}
# physical-presence probes: any method of the DML executor may use them (they decide how a row image is
# written - insert vs revive - and never produce query results; SELECT paths live in runtime::ops and stay confined)
DML_PROBES = {
    "tree::bplustree::Btree::<Acc>::get_tuple_at_unchecked": "physical probe inside the DML executor",
    "storage::tuple::Tuple::is_deleted": "physical probe inside the DML executor",
}
# closures that may call Tuple::from_slice_unchecked without a dominating parse_for_snapshot
RAW_OK = {
    "schema::catalog::Catalog::vacuum_btree::{closure#0}": "vacuum inspects every physical tuple",
    "tree::bplustree::Btree::<Acc>::get_tuple_at_unchecked::{closure#0}": "the unchecked accessor itself (confined above)",
}


def check(cx):
    p = cx.p
    # ---- C04.1 one snapshot per transaction ----------------------------------------------------
    r1 = cx.rule("C04.1", "WMC: TransactionCoordinator::snapshot is called only by begin, Snapshot::new only by "
                 "snapshot/load_aborted_transactions, begin only by Database::begin_transaction; a child context "
                 "copies its parent's snapshot", floor=4)
    table = {
        K.COORD + "::snapshot": {K.COORD + "::begin"},
        SNAP + "::new": {K.COORD + "::snapshot", K.COORD + "::load_aborted_transactions"},
        K.COORD + "::begin": {"Database::begin_transaction"},
    }
    for callee, allowed in table.items():
        cx.guard(r1, callee, p.fn, callee)
        cs = K.callers_of(p, callee, allowed)
        if not cs:
            cx.bad(r1, "no-caller:" + callee, "", "%s has no caller" % callee)
        for c in cs:
            cx.verdict(c in allowed, r1, "%s<-%s" % (callee.rsplit("::", 1)[-1], c), p.where_of(c), "expected caller",
                       "a second place builds a snapshot (%s called from %s): a transaction could read through two "
                       "different snapshots" % (callee, c))
    f = cx.guard(r1, "create_child", p.fn, K.CTX + "::create_child")
    if f:
        # ThreadContext::new(self.tid(), self.snapshot(), ..): args derive from the handle
        newc = [c for c in f.calls() if c.callee == "runtime::context::ThreadContext::new"]
        good = bool(newc)
        for c in newc:
            l = op_local(c.args[1])
            srcs = {x.callee for x in f.calls() if op_local({"c": x.dst}) in f.dep_closure(l)}
            good = good and (K.CTX + "::snapshot") in srcs
        cx.verdict(good, r1, "child-copies-snapshot", f.where(), "ThreadContext snapshot = parent.snapshot()",
                   "create_child does not hand the parent's snapshot to the child context")
    f = cx.guard(r1, "ctx.snapshot", p.fn, K.CTX + "::snapshot")
    if f:
        cx.verdict(p.reaches(f.id, K.HANDLE + "::snapshot") and not p.reaches(f.id, K.COORD + "::snapshot"), r1,
                   "ctx-snapshot-is-handle-snapshot", f.where(), "reads the handle's snapshot",
                   "TransactionContext::snapshot builds a fresh snapshot instead of returning the transaction's")

    # ---- C04.1b what a snapshot is made of ---------------------------------------------------------------
    r1b = cx.rule("C04.1b", "FLOW: TransactionCoordinator::snapshot hands Snapshot::new the complete set of Active "
                  "transactions and the complete set of Aborted ones (the direct results of transaction_set, unfiltered) and "
                  "the persisted last-committed id as upper bound (accessor -> pager getter -> header field last_committed_transaction)", floor=4)
    fs = cx.guard(r1b, "snapshot", p.fn, K.COORD + "::snapshot")
    if fs:
        news = [c for c in fs.calls() if c.callee == SNAP + "::new"]
        ts = K.COORD + "::transaction_set"
        if not news:
            cx.bad(r1b, "no-constructor", fs.where(), "snapshot() does not build a Snapshot")
        for c in news:
            for idx, nm in ((3, "active"), (4, "aborted")):
                near = fs.nearest_calls(op_local(c.args[idx]))
                calls_ = {x for k, x in near if k == "call"}
                cx.verdict(calls_ == {ts}, r1b, nm + "-set-unfiltered", c.where(), "%s set = transaction_set(..)" % nm,
                           "the %s set of a new snapshot is produced by %s instead of the complete transaction_set(): "
                           "transactions dropped from it are treated as committed (dirty reads)" % (nm, sorted(calls_)))
            near = fs.nearest_calls(op_local(c.args[2]))
            calls_ = {x for k, x in near if k == "call"}
            cx.verdict(bool({K.COORD + "::get_last_committed", K.PAGER + "::get_last_committed_transaction"} & calls_), r1b, "upper-bound-is-last-committed", c.where(),
                       "xmax derives from get_last_committed()", "the snapshot upper bound does not come from the last committed id")
        # the two state arguments really are Active and Aborted
        states = []
        for c in fs.calls():
            if c.callee == ts:
                k = None
                l = op_local(c.args[1])
                for b in fs.blocks:
                    for st in b["stmts"]:
                        if l is not None and st["dst"] == [l] and st["rv"].get("r") == "agg":
                            k = st["rv"].get("variant")
                kc = op_const(c.args[1])
                states.append(k or (kc or {}).get("v"))
        cx.verdict(sorted(str(x) for x in states) == ["Aborted", "Active"], r1b, "states-active-and-aborted", fs.where(),
                   "transaction_set(Active) and transaction_set(Aborted)", "snapshot() collects transaction states %s" % states)

        # ... and get_last_committed really reads the persisted last-committed id (not the last *created* one, which runs
        # ahead of every commit): coordinator accessor -> pager getter -> header field of the same name
        chain_ok, why = False, "get_last_committed not found"
        g1 = p.fns.get(K.COORD + "::get_last_committed")
        if g1:
            pg = [c.callee for c in g1.calls() if c.callee.startswith(K.PAGER + "::get_")]
            why = "calls %s" % pg
            if pg == [K.PAGER + "::get_last_committed_transaction"]:
                g2 = p.fns.get(pg[0])
                flds = set()
                for b in (g2.blocks if g2 else []):
                    for st in b["stmts"]:
                        for o in (st["rv"].get("o") or []) if isinstance(st["rv"].get("o"), list) else []:
                            for pe in (o.get("c") or o.get("m") or [])[1:]:
                                if isinstance(pe, str) and pe.startswith(".") and ":storage::page::PageZeroHeader" in pe:
                                    flds.add(pe.split(":")[0][1:])
                why = "reads header field(s) %s" % sorted(flds)
                chain_ok = flds == {"last_committed_transaction"}
        cx.verdict(chain_ok, r1b, "upper-bound-reads-last-committed-field", g1.where() if g1 else "", why,
                   "the snapshot upper bound is not the persisted last-committed id (%s): a transaction that merely started is "
                   "treated as possibly committed and its uncommitted rows are visible to the reader that began before it" % why)

    # ---- C04.2 snapshot-aware reads -----------------------------------------------------------
    r2 = cx.rule("C04.2", "WMC: the snapshot-unaware decoders/predicates are called only from the frozen list; every "
                 "raw Tuple::from_slice_unchecked is dominated by parse_for_snapshot on the same bytes", floor=9)
    for callee, allowed in UNAWARE.items():
        if callee not in p.fns:
            cx.bad(r2, "anchor-missing:" + callee, "", "decoder `%s` not found (renamed?)" % callee)
            continue
        cs = K.callers_of(p, callee, set(allowed))
        if not cs:
            cx.ok(r2, callee + ":no-callers", p.where_of(callee), "no production caller")
        for c in cs:
            owner_ok = callee in DML_PROBES and ((p.fn(c).root or c).startswith("runtime::dml::DmlExecutor::"))
            cx.verdict(c in allowed or owner_ok, r2, "%s<-%s" % (callee, c), p.where_of(c),
                       "allowed: " + allowed.get(c, DML_PROBES.get(callee, "")),
                       "snapshot-unaware `%s` is now called from %s: rows are read without asking the "
                       "transaction's snapshot" % (callee.rsplit("::", 1)[-1], c))
    raw = "storage::tuple::Tuple::from_slice_unchecked"
    cx.guard(r2, raw, p.fn, raw)
    for c in K.sites(p, raw):
        f = c.fn
        if c.callee != raw:
            continue
        if f.id in RAW_OK:
            cx.ok(r2, "raw@" + f.id, c.where(), "allowed: " + RAW_OK[f.id])
            continue
        pf = [x for x in f.calls() if x.callee == PFS]
        good = bool(pf) and any(f.dominates(x.bb, c.bb) for x in pf)
        cx.verdict(good, r2, "raw@" + f.id, c.where(), "dominated by parse_for_snapshot",
                   "a raw tuple is materialised without a dominating snapshot check")

    # ---- C04.2b the snapshot used is the context's ------------------------------------------------
    r2b = cx.rule("C04.2b", "FLOW: the snapshot handed to Btree::get_row_at / get_tuple_at / parse_for_snapshot in "
                  "executors, DML and validators derives from the executing context's snapshot()", floor=7)
    readers = {"tree::bplustree::Btree::<Acc>::get_row_at": 3, "tree::bplustree::Btree::<Acc>::get_tuple_at": 3}
    SRC = {"runtime::context::ThreadContext::snapshot", K.CTX + "::snapshot"}
    for callee, pos in readers.items():
        for c in K.sites(p, callee):
            if c.callee != callee:
                continue
            f = c.fn
            if not (f.id.startswith("<runtime::ops") or f.id.startswith("runtime::")):
                continue
            l = op_local(c.args[pos])
            cl = f.dep_closure(l) if l is not None else set()
            srcs = {x.callee for x in f.calls() if op_local({"c": x.dst}) in cl and x.callee in SRC}
            # operators keep the context in self: field read of ctx then snapshot(); parameters typed &Snapshot are the caller's duty
            params = {a for a in range(1, f.nargs + 1) if a in cl and "Snapshot" in f.locals[a]}
            cx.verdict(bool(srcs) or bool(params), r2b, "%s@%s" % (callee.rsplit("::", 1)[-1], f.id), c.where(),
                       "snapshot from %s" % (sorted(srcs) or "parameter"),
                       "the snapshot argument does not come from the executing context")

    # ---- C04.3 write-set tracking -----------------------------------------------------------------
    r3 = cx.rule("C04.3", "MPT: DmlExecutor::{insert,update,delete} record each write in the coordinator's write set "
                 "(TransactionCoordinator::record_write), which commit validates — otherwise two concurrent writers "
                 "of one row both commit", floor=1)
    rw = K.COORD + "::record_write"
    cx.guard(r3, rw, p.fn, rw)
    callers = K.callers_of(p, rw)
    if not callers:
        cx.bad(r3, "record_write:no-callers", p.where_of(rw) if rw in p.fns else "",
               "record_write has no production caller: validate_write_set validates an always-empty set, so two "
               "transactions that modify the same row both commit (D4)")
    else:
        T = p.must_reach_set({rw})
        for name in ("insert", "update", "delete"):
            f = p.fn("runtime::dml::DmlExecutor::" + name)
            cx.verdict(p.all_success_paths_call(f, T, 0), r3, name, f.where(), "records the write",
                       "DmlExecutor::%s has a success path that does not record the write" % name)

    # ---- C04.4 validate before commit ---------------------------------------------------------------
    r4 = cx.rule("C04.4", "MPR: in TransactionCoordinator::commit the store of Committed is dominated by "
                 "validate_write_set and lies on its Allowed arm; the Conflict arm stores Aborted and returns an error",
                 floor=2)
    f = cx.guard(r4, "commit", p.fn, K.COORD + "::commit")
    if f:
        val = [c for c in f.calls() if c.callee == K.COORD + "::validate_write_set"]
        sets = [c for c in f.calls() if c.callee == K.COORD + "::set_transaction_state"]
        st_of = {}
        for c in sets:
            k = op_const(c.args[2])
            # state passed as a constant enum value or via an aggregate local
            state = None
            l = op_local(c.args[2])
            if l is not None:
                for b in f.blocks:
                    for s in b["stmts"]:
                        if s["dst"] == [l] and s["rv"].get("r") == "agg":
                            state = s["rv"].get("variant")
            st_of[c.bb] = state
        arms = [x for x in core.enum_switches(p, f) if x[1].endswith("ValidationResult")]
        good = bool(val) and bool(arms)
        detail = ""
        if good:
            sw_bb, _, m, other, _ = arms[0]
            # `match r { Allowed => .., Conflict(t) => .. }` or `if let Conflict(t) = r { ..; return Err } ..`: the Allowed side is
            # what the switch reaches without entering the Conflict arm
            conflict_t = m.get("Conflict")
            allowed_t = m.get("Allowed", other)
            conflict_region = core.dominated(f, conflict_t) if conflict_t is not None else set()
            past_conflict = f.reachable(conflict_t) if conflict_t is not None else set(range(len(f.blocks)))
            allowed_region = (f.reachable(allowed_t) - past_conflict) if conflict_t is not None and allowed_t != conflict_t else set()
            committed = [bb for bb, s in st_of.items() if s == "Committed"]
            aborted = [bb for bb, s in st_of.items() if s == "Aborted"]
            good = bool(committed) and all(bb in allowed_region and f.dominates(sw_bb, bb) for bb in committed) and \
                all(any(f.dominates(v.bb, bb) for v in val) for bb in committed) and \
                bool(aborted) and all(bb in conflict_region for bb in aborted)
            detail = "Committed stored in %s (Allowed arm %s), Aborted in %s" % (committed, sorted(allowed_region)[:3], aborted)
        cx.verdict(good, r4, "committed-on-allowed-arm", f.where(), detail,
                   "Committed is stored outside the Allowed arm of the validation (or validation was removed)")
        # the Conflict arm returns Err
        if arms and "Conflict" in arms[0][2]:
            reg = core.dominated(f, arms[0][2]["Conflict"])
            errs = [s for _, s in core.region_aggregates(f, reg, "std::result::Result") if s["rv"]["variant"] == "Err"]
            cx.verdict(bool(errs), r4, "conflict-returns-err", f.where(), "Conflict arm returns Err",
                       "a write-write conflict no longer fails the commit")

    # ---- C04.5 finish once ------------------------------------------------------------------------
    r5 = cx.rule("C04.5", "TYPE: CommitHandle is not Clone/Copy; a cloned TransactionHandle carries no commit handle; "
                 "commit/abort take() the handle", floor=3)
    CH = "multithreading::coordinator::CommitHandle"
    cx.guard(r5, CH, p.enum_variants, CH)
    cl = [i for i in p.impls if i.get("adt") == CH and i.get("trait") in ("std::clone::Clone", "std::marker::Copy")]
    cx.verdict(not cl, r5, "CommitHandle:!Clone", "", "no Clone/Copy impl for CommitHandle",
               "CommitHandle became Clone: one transaction could be committed and aborted")
    f = cx.guard(r5, "handle-clone", p.method, K.HANDLE, "clone", "std::clone::Clone")
    if f:
        aggs = [s for _, s in core.region_aggregates(f, range(len(f.blocks)), K.HANDLE)]
        good = bool(aggs)
        for s in aggs:
            idx = s["rv"]["fields"].index("commit_handle")
            o = s["rv"]["o"][idx]
            l = op_local(o)
            isnone = False
            for b in f.blocks:
                for st in b["stmts"]:
                    if l is not None and st["dst"] == [l] and st["rv"].get("variant") == "None":
                        isnone = True
            good = good and isnone
        cx.verdict(good, r5, "clone-carries-None", f.where(), "clone sets commit_handle: None",
                   "a cloned handle keeps the ability to commit/abort")
    for name in ("commit", "abort"):
        f = cx.guard(r5, name, p.fn, K.HANDLE + "::" + name)
        if f:
            take = [c for c in f.calls() if c.callee.endswith("Option::<T>::take")]
            fin = [c for c in f.calls() if c.callee == CH + "::" + name]
            good = bool(take) and bool(fin) and all(any(f.dominates(t.bb, x.bb) for t in take) for x in fin)
            cx.verdict(good, r5, "take:" + name, f.where(), "the commit handle is taken before use",
                       "TransactionHandle::%s does not consume the commit handle" % name)

    # ---- C04.6 last_committed moves forward only ----------------------------------------------------
    r6 = cx.rule("C04.6", "MPR: every store of the persisted last-committed id in TransactionCoordinator::commit is "
                 "control-dependent on a comparison between the committing id and the current value (the snapshot "
                 "upper bound never moves backwards when an older transaction commits after a younger one)", floor=1)
    f = p.fns.get(K.COORD + "::commit")
    setter = K.PAGER + "::set_last_committed_transaction"
    getter = K.PAGER + "::get_last_committed_transaction"
    if f:
        ss = [c for c in f.calls() if c.callee == setter]
        if not ss:
            cx.bad(r6, "no-store", f.where(), "commit no longer persists the last committed id")
        for c in ss:
            good = False
            why = "no guarding comparison"
            for bi, b in enumerate(f.blocks):
                t = b["term"]
                if t["t"] != "switch" or not f.dominates(bi, c.bb) or bi == c.bb:
                    continue
                l = op_local(t["o"])
                cl = f.dep_closure(l) if l is not None else set()
                from_get = any(op_local({"c": x.dst}) in cl for x in f.calls() if x.callee == getter)
                from_txid = 2 in cl
                # the comparison itself
                cmp_ops = [s["rv"]["op"] for bb in f.blocks for s in bb["stmts"]
                           if s["dst"][0] in cl and s["rv"].get("r") == "bin" and s["rv"]["op"] in ("Gt", "Ge", "Lt", "Le")]
                # the store must sit on exactly one arm of the switch
                arms_reaching = [tgt for _, tgt in t["targets"]] + [t["otherwise"]]
                on_one_arm = sum(1 for a in set(arms_reaching) if c.bb in f.reachable(a, blocked={bi})) == 1
                if from_get and from_txid and cmp_ops and on_one_arm:
                    good = True
                    why = "guarded by %s on (txid, current)" % cmp_ops
            cx.verdict(good, r6, "monotone-store", c.where(), why,
                       "set_last_committed_transaction is not guarded by a comparison with the current value: an "
                       "older transaction committing late moves the snapshot bound backwards")

    # ---- C04.7 first deleter wins ----------------------------------------------------------------------
    r7 = cx.rule("C04.7", "MPR: Tuple::delete writes xmax only when the tuple carries no deleter yet, and that test "
                 "does not depend on who asks (a second deleter never overwrites the first one's mark)", floor=1)
    f = cx.guard(r7, "delete", p.fn, "storage::tuple::Tuple::delete")
    if f:
        stores = [(bi, s) for bi, b in enumerate(f.blocks) for s in b["stmts"]
                  if any(isinstance(pe, str) and pe.startswith(".xmax:") for pe in s["dst"][1:])]
        good = bool(stores)
        why = ""
        for bi, s in stores:
            guards = []
            for gi, b in enumerate(f.blocks):
                t = b["term"]
                if t["t"] == "switch" and gi != bi and f.dominates(gi, bi):
                    l = op_local(t["o"])
                    # what the tested value is (provenance), and whether the id of the caller's transaction feeds it
                    prov = f.nearest_calls(l) if l is not None else set()
                    tests = {x.rsplit("::", 1)[-1] for k_, x in prov if k_ == "call"}
                    producers = [x for x in f.calls() if op_local({"c": x.dst}) in ((f.provenance_locals(l) | {l}) if l is not None else set())]
                    dep = ("param", 2) in prov or any(("param", 2) in f.nearest_calls(op_local(a)) for x in producers for a in x.args if op_local(a) is not None)
                    guards.append((tests, dep))
            ok1 = any(("is_deleted" in t or "is_some" in t or "is_none" in t) and not dep for t, dep in guards)
            good = good and ok1
            why = "guards: %s" % [(sorted(t), "depends on xid" if d else "independent of xid") for t, d in guards]
        cx.verdict(good, r7, "first-deleter-wins", f.where(), why,
                   "the xmax store is not guarded by an `already deleted` test independent of the caller's id (%s)" % why)


    # ---- C04.8 decision tables -------------------------------------------------------------------------
    r8 = cx.rule("C04.8", "DEC: the decision tables of Snapshot::is_committed_before_snapshot, "
                 "TupleLayout::is_valid_for_snapshot and Snapshot::is_transaction_aborted, extracted from the MIR over all "
                 "orderings of the compared ids, equal the reference tables", floor=3)
    dec_refs.check_committed_before(cx, r8, p)
    dec_refs.check_valid_for_snapshot(cx, r8, p)
    dec_refs.check_is_transaction_aborted(cx, r8, p)

    # ---- C04.9 (construct shared with C03.4) ----------------------------------------------------------------------------
    from . import c03
    cx.include(c03, {"C03.4"}, "C04.9", "shared with C03.4: every version stamp (xmin of a new version, xmax of a delete) is the id of "
               "the executing transaction; a stamp taken from another accessor (xmin, a constant) attributes the write to another "
               "transaction and every snapshot judges it by the wrong fate", floor=14)

    # ---- C04.10 (construct shared with C18.2) ---------------------------------------------------------------------------
    from . import c18
    cx.include(c18, {"C18.2"}, "C04.10", "shared with C18.2: a row whose newest version was deleted by a transaction committed before the snapshot is "
               "hidden before older versions are considered; otherwise a committed DELETE of an updated row is not honoured", floor=3)

    # ---- C04.11 (construct shared with C09.4) ------------------------------------------------------------------------
    from . import c09 as _c09
    cx.include(_c09, {"C09.4"}, "C04.11", "shared with C09.4: the persisted aborted set is written and read back with one bit layout (the "
               "loader is the inverse of the membership test); an aborted id that the loader skips is, after a reopen, neither active "
               "nor aborted for any snapshot - its rolled-back rows are visible as committed "
               "(ids beyond the bitmap, D19, are the known finding of C09.4 itself)", floor=3, skip=("drops-large-ids",))
