"""Reference decision tables for the visibility predicates (DESIGN 4.12)."""
from axvlib import dec

SNAP = "multithreading::coordinator::Snapshot"


def check_committed_before(cx, rid, p):
    f = cx.guard(rid, "is_committed_before_snapshot", p.fn, SNAP + "::is_committed_before_snapshot")
    if not f:
        return
    names = [(("local", 1), "snap"), (("local", 2), "txid")]

    def ref(get):
        some = get(("discr", "snap.xmax")) == 1
        if some and get(("cmp", "snap.xmax?Some.0", "txid")) == "lt":
            return 0                                   # began after the snapshot's upper bound
        if get(("call", "contains(snap.active_txs, txid)")) or get(("call", "contains(snap.aborted_txs, txid)")):
            return 0
        return 1
    _run(cx, rid, f, names, ref, "committed-before(txid) <=> not(xmax < txid) and txid not active and txid not aborted")


def check_valid_for_snapshot(cx, rid, p):
    f = cx.guard(rid, "is_valid_for_snapshot", p.fn, "storage::tuple::TupleLayout::is_valid_for_snapshot")
    if not f:
        return
    names = [(("local", 1), "lay"), (("local", 2), "snap")]

    def ref(get):
        created = get(("call", "is_committed_before_snapshot(snap, lay.version_xmin)")) or \
            get(("cmp", "lay.version_xmin", "xid(snap)")) == "eq"
        if get(("discr", "lay.version_xmax")) == 1:
            deleted = get(("call", "is_committed_before_snapshot(snap, lay.version_xmax?Some.0)")) or \
                get(("cmp", "lay.version_xmax?Some.0", "xid(snap)")) == "eq"
            return 1 if (created and not deleted) else 0
        return 1 if created else 0
    _run(cx, rid, f, names, ref, "valid <=> (creator committed-before or is me) and not (deleter committed-before or is me)")


def check_is_transaction_aborted(cx, rid, p):
    f = cx.guard(rid, "is_transaction_aborted", p.fn, SNAP + "::is_transaction_aborted")
    if not f:
        return
    names = [(("local", 1), "snap"), (("local", 2), "xid")]
    _run(cx, rid, f, names, lambda get: get(("call", "contains(snap.aborted_txs, xid)")), "aborted(xid) <=> xid in aborted set")


def _run(cx, rid, f, names, ref, text):
    key = f.id.rsplit("::", 1)[-1]
    prog = cx.p
    expand = set()
    crate_cond = False        # the function decided through a condition that is a function of this crate (unfolded since)
    for _round in range(4):
        try:
            tree = dec.build_tree(f, prog=prog, expand=expand)
            rows, atoms = dec.table(tree, names)
        except dec.NotAnalysable as e:
            cx.advisory(rid, key + ":not-analysable", f.where(),
                        "decision table not extractable (%s): clause not claimed for this run" % e)
            return
        asked = set()

        def ref_rec(get):
            def g2(k):
                asked.add(k)
                return get(k)
            return ref(g2)
        bad, checked = dec.compare(rows, atoms, ref_rec)
        unk = [k for k in atoms.domains if k not in asked]
        # a condition the reference has no name for that is a call of a function of this crate (a helper, a sibling
        # predicate): unfold the callee and compare again
        more = {getattr(atoms, "callee", {}).get(k) for k in unk if k[0] == "call"}
        more = {m for m in more if m in prog.raw_fns and m not in expand and m != f.id}
        crate_cond = crate_cond or bool(more)
        if not bad or not more:
            break
        expand |= more
    unknown = sorted(str(k[1] if len(k) == 2 else "%s ? %s" % (k[1], k[2])) for k in unk)
    callee = getattr(atoms, "callee", {})
    # conditions computed by a std adaptor (Option::is_some_and with a closure, ...) are opaque to the extraction; a condition
    # that is a call of a function of this crate is a real, different condition and is compared
    opaque_only = bool(unk) and all(k[0] == "call" and str(callee.get(k, "")).split("::")[0] in ("std", "core", "alloc") for k in unk)
    if bad and opaque_only and not crate_cond:
        # the function decides through conditions the reference has no name for (a std adaptor with a closure, a new
        # helper ...): the tables are not comparable, which is not a verdict
        cx.advisory(rid, key + ":table", f.where(),
                    "decision table uses conditions the reference cannot interpret (%s): clause not decided for this run" % ", ".join(unknown[:4]))
        return
    if bad:
        a, got, exp = bad[0]
        pretty = {(k[1] if len(k) == 2 else "%s ? %s" % (k[1], k[2])): v for k, v in a.items()}
        cx.bad(rid, key + ":table", f.where(),
               "%s returns %d where the reference (%s) says %d for %s (%d of %d table rows differ)" % (
                   key, got, text, exp, pretty, len(bad), checked))
    else:
        cx.ok(rid, key + ":table", f.where(), "%d rows over atoms %s agree with: %s" % (
            checked, [k[1] if len(k) == 2 else "%s?%s" % (k[1], k[2]) for k in atoms.domains], text))
