"""C13 — VACUUM frees space without changing what anyone can see (partly claimed)."""
from axvlib import core
from axvlib.core import AnchorMissing, op_local, op_const, enum_switches, dominated
from . import common as K

EXPLANATION = (
    "Decides the structure of VACUUM: physical removal of a tuple happens only in vacuum_btree and must depend on the "
    "fate (aborted / committed) of the transaction named by the stamp it looks at — for the creator (xmin aborted) and "
    "for the deleter (xmax) alike; history trimming keeps a delta iff its xmin >= horizon; every relation of the catalog "
    "(tables and indexes) and both catalog trees are vacuumed; the aborted bitmap is cleared only up to the horizon that "
    "was used for the trees; all active transactions are aborted first; the vacuum ends in a checkpoint and the engine "
    "stays usable (cache capacity untouched).")
NOT_DECIDED = "boundedness of storage over update/vacuum cycles; equality of all query results before/after"
ASSUMPTIONS = []

VB = "schema::catalog::Catalog::vacuum_btree"
VBC = VB + "::{closure#0}"
VAC = "Database::vacuum::{closure#0}"
SNAP = "multithreading::coordinator::Snapshot"


def check(cx):
    p = cx.p
    # ---- C13.1 removal needs the fate of the stamping transaction --------------------------------
    r1 = cx.rule("C13.1", "FLOW: in vacuum_btree the branch that queues a tuple for physical removal depends, for each "
                 "stamp it tests (xmin, xmax), on a Snapshot status query applied to that stamp — presence of xmax alone "
                 "says nothing about whether the deleter committed; a tuple whose mark VACUUM takes off is queued for write-back on "
                 "every success path", floor=3)
    f = cx.guard(r1, VBC, p.fn, VBC)
    if f:
        aborted_q = [c for c in f.calls() if c.callee == SNAP + "::is_transaction_aborted" or c.callee == SNAP + "::is_committed_before_snapshot"]
        xmin_c = [c for c in f.calls() if c.callee == "storage::tuple::Tuple::xmin"]
        xmax_c = [c for c in f.calls() if c.callee in ("storage::tuple::Tuple::xmax", "storage::tuple::Tuple::is_deleted")]
        # creator test
        good = any(any(op_local({"c": x.dst}) in f.dep_closure(op_local(q.args[1])) for x in xmin_c) for q in aborted_q)
        cx.verdict(good, r1, "creator-fate", f.where(), "xmin is passed to a Snapshot status query",
                   "vacuum no longer asks whether the creating transaction aborted")
        # deleter test: some status query is applied to the tuple's xmax (directly, or inside a closure handed to
        # Option::is_some_and/map/filter on the xmax() result) and its outcome decides whether the tuple is queued for removal
        status_fns = {SNAP + "::is_transaction_aborted", SNAP + "::is_committed_before_snapshot"}
        xmax_get = [c for c in f.calls() if c.callee == "storage::tuple::Tuple::xmax"]
        R = set()
        for q in aborted_q:
            if len(q.args) > 1 and any(op_local({"c": x.dst}) in (f.dep_closure(op_local(q.args[1])) | {op_local(q.args[1])}) for x in xmax_get):
                R.add(op_local({"c": q.dst}))
        for c in f.calls():
            if c.callee.rsplit("::", 1)[-1] in ("is_some_and", "map", "filter", "map_or", "is_none_or") and c.args:
                recv = op_local(c.args[0])
                if recv is None or not any(op_local({"c": x.dst}) in (f.dep_closure(recv) | {recv}) for x in xmax_get):
                    continue
                for t in p.targets(c):
                    g = p.fns.get(t)
                    if g is not None and g.kind == "closure" and any(cc.callee in status_fns for cc in g.calls()):
                        R.add(op_local({"c": c.dst}))
        # which queue is the removal queue: the captured vector whose elements vacuum_btree hands to remove_tuple
        pushes = [c for c in f.calls() if c.callee.endswith("Vec::<T, A>::push")]
        par = p.raw_fns.get(f.parent or "")

        def captured_local(c):
            """local of the enclosing function behind the receiver of this push (a variable captured by reference)"""
            if par is None or not c.args or op_local(c.args[0]) is None:
                return None
            idx = None
            for l in f.provenance_locals(op_local(c.args[0])):
                for b_ in f.blocks:
                    for st in b_["stmts"]:
                        if st["dst"] == [l]:
                            for o in (st["rv"].get("o") or []) if isinstance(st["rv"].get("o"), list) else []:
                                pl = o.get("c") or o.get("m") if isinstance(o, dict) else None
                                if pl and pl[0] == 1 and len(pl) >= 2 and isinstance(pl[-1], str) and pl[-1].endswith(":closure"):
                                    idx = int(pl[-1][1:].split(":")[0])
            if idx is None:
                return None
            for b_ in par.blocks:
                for st in b_["stmts"]:
                    if st["rv"].get("r") == "agg" and st["rv"].get("akind") == "closure" and st["rv"].get("def") == f.id and idx < len(st["rv"]["o"]):
                        r_ = op_local(st["rv"]["o"][idx])
                        for b2 in par.blocks:
                            for s2 in b2["stmts"]:
                                if s2["dst"] == [r_] and s2["rv"].get("r") == "ref":
                                    return s2["rv"]["p"][0]
            return None
        rm_deps = set()
        if par is not None:
            for c in par.calls():
                if c.callee.endswith("::remove_tuple") or c.callee.endswith("Btree::<Acc>::remove"):
                    a_ = c.args[-2] if len(c.args) >= 3 else None
                    if a_ is not None and op_local(a_) is not None:
                        rm_deps |= par.dep_closure(op_local(a_))
        removal = [c for c in pushes if captured_local(c) is not None and captured_local(c) in rm_deps]
        if not removal:
            removal = pushes[:1]
        from axvlib import absint
        ps = absint.PathSearch(p, f)
        decides = False
        try:
            for bi, b in enumerate(f.blocks):
                t = b["term"]
                if t["t"] != "switch":
                    continue
                dl = op_local(t["o"])
                if dl is None or not (R & (f.dep_closure(dl) | {dl})):
                    continue
                # the arms are followed with what each one knows about the tested value: a verdict carried in an enum or
                # a flag and taken apart later still separates the arms
                _, outs = ps.step(bi, {})
                reach = [any(r.bb in ps.feasible_blocks(tg, init=e2) for r in removal) for tg, e2 in outs]
                if len(set(reach)) == 2:
                    decides = True
        except absint.TooManyStates:
            decides = None
        if decides is None:
            cx.advisory(r1, "deleter-fate", f.where(), "path search exceeded its budget: clause not decided for this run")
        else:
            cx.verdict(bool(R) and decides, r1, "deleter-fate", (xmax_c or f.calls())[0].where(),
                       "the deleter's status (aborted?) is queried and decides whether the tuple is removed",
                       "a tuple is removed because an xmax is present, without asking whether the deleting transaction "
                       "committed: a row whose DELETE was rolled back is physically removed by VACUUM (D7)")

        # a tuple changed in place by VACUUM (the rolled-back deletion mark taken off) must be queued for write-back:
        # VACUUM forgets the aborted ids afterwards, so a mark left on disk turns into a committed delete
        und = [c for c in f.calls() if c.callee == "storage::tuple::Tuple::undelete"]
        rets = [bi for bi, b in enumerate(f.blocks) if b["term"]["t"] == "ret"]
        if not und:
            cx.bad(r1, "undelete-written-back", f.where(), "vacuum no longer takes a rolled-back deletion mark off the tuple (D7)")
        else:
            try:
                leak = ps.find_path(0, rets, kill={c.bb for c in pushes} | f.err_blocks(), via={c.term["to"] for c in und})
            except absint.TooManyStates:
                leak = f.correlated_path(0, {c.bb for c in pushes} | f.err_blocks(), rets, via={c.term["to"] for c in und})
            cx.verdict(leak is None, r1, "undelete-written-back", und[0].where(),
                       "every success path after Tuple::undelete queues the tuple (paths ruled out by known flags and enum variants discarded)",
                       "after Tuple::undelete the closure can return without queueing the tuple for write-back (path bb%s): "
                       "the stored tuple keeps the rolled-back deleter's mark and, once VACUUM has forgotten the aborted "
                       "ids, the row disappears" % (leak,))

    # ---- C13.2 who removes physically --------------------------------------------------------------
    r2 = cx.rule("C13.2", "WMC: Btree::remove_tuple / Btree::remove are called only from vacuum_btree; Tuple::vaccum_with only "
                 "from vacuum", floor=2)
    for callee, allowed in (("tree::bplustree::Btree::<Acc>::remove_tuple", {VB}),
                            ("storage::tuple::Tuple::vaccum_with", {VBC, "storage::tuple::Tuple::vaccum_for_snapshot"})):
        cx.guard(r2, callee, p.fn, callee)
        for c in K.callers_of(p, callee, allowed):
            cx.verdict(c in allowed, r2, "%s<-%s" % (callee.rsplit("::", 1)[-1], c), p.where_of(c), "expected caller",
                       "%s physically removes tuples/history outside VACUUM" % c)

    # ---- C13.3 every relation and both catalog trees ---------------------------------------------------
    r3 = cx.rule("C13.3", "TAB/MPT: Catalog::vacuum vacuums every relation it reads from the meta table (no filter on the "
                 "relation kind) plus the meta table and the meta index", floor=3)
    fv = cx.guard(r3, "vacuum", p.fn, "schema::catalog::Catalog::vacuum")
    if fv:
        vcalls = [c for c in fv.calls() if c.callee == VB]
        cx.verdict(len(vcalls) >= 3, r3, "three-sweeps", fv.where(), "%d vacuum_btree call sites (relations, meta table, meta index)" % len(vcalls),
                   "Catalog::vacuum has only %d vacuum_btree call site(s): relations, meta table and meta index need one each" % len(vcalls))
        fam = [fv] + [p.fns[c] for c in p.closure_children.get(fv.id, ())]
        filt = [c for g in fam for c in g.calls() if c.callee.rsplit("::", 1)[-1] in ("is_table", "is_index", "kind", "relation_type")
                and "Relation" in c.callee]
        cx.verdict(not filt, r3, "no-kind-filter", (filt or vcalls or fv.calls())[0].where(), "relations are not filtered by kind",
                   "Catalog::vacuum filters relations by kind (%s): index trees keep entries of aborted transactions while the "
                   "aborted set is forgotten" % sorted({c.callee for c in filt}))
        for c in vcalls:
            cx.verdict(True, r3, "sweep@bb", c.where(), "vacuum_btree")  # instance record

    # ---- C13.4 the Database::vacuum protocol ----------------------------------------------------------------
    r4 = cx.rule("C13.4", "MPR/FLOW: Database::vacuum aborts all active transactions first, uses one horizon value for "
                 "Catalog::vacuum and for clearing the aborted bitmap, commits, then checkpoints; abort_all marks every Active "
                 "transaction (no further condition)", floor=5)
    g = cx.guard(r4, VAC, p.fn, VAC)
    if g:
        ab = [c for c in g.calls() if c.callee == K.COORD + "::abort_all"]
        cv = [c for c in g.calls() if c.callee == "schema::catalog::Catalog::vacuum"]
        cl = [c for c in g.calls() if c.callee == K.PAGER + "::clear_aborted_up_to"]
        cm = [c for c in g.calls() if c.callee == K.COMMIT_TX]
        ck = [c for c in g.calls() if c.callee == K.PAGER_FLUSH]
        good = bool(ab) and bool(cv) and all(any(g.dominates(a.bb, v.bb) for a in ab) for v in cv)
        cx.verdict(good, r4, "abort-all-first", g.where(), "abort_all dominates Catalog::vacuum", "VACUUM runs while other transactions are active")
        # ... and abort_all spares nobody: inside its loop the store `state = Aborted` is decided by the iteration and by
        # the `state == Active` test alone (vacuum_btree assumes that every deleter either committed or rolled back)
        fa = p.fns.get(K.COORD + "::abort_all")
        if fa is None:
            cx.bad(r4, "abort-all-spares-nobody", "", "TransactionCoordinator::abort_all not found")
        else:
            # the store may sit in the loop body or in a closure of an iterator chain: look at the whole family. A bool that
            # decides the store (a branch that dominates it, or the result of a filter closure of the chain) must come from
            # a comparison of the state and from nothing else; adaptors that drop elements by position are not allowed
            fam = [fa] + [p.fn(c) for c in p.closure_children.get(fa.id, ())]

            def active_pred(g_):
                """`matches!(self.state, TransactionState::Active)`: one switch on the state's discriminant, true on Active only"""
                sw = list(core.enum_switches(p, g_))
                if len(sw) != 1 or any(b["term"]["t"] == "switch" for i, b in enumerate(g_.blocks) if i != sw[0][0]) or list(g_.calls()):
                    return False
                bi, adt, m, other, src = sw[0]
                if not adt.endswith("TransactionState") or set(m) != {"Active"}:
                    return False

                def sets(bb, v):
                    return any(st["dst"] == [0] and st["rv"].get("r") == "use" and (core.op_const(st["rv"]["o"][0]) or {}).get("v") == v
                               for st in g_.blocks[bb]["stmts"])
                return sets(m["Active"], 1) and sets(other, 0)

            def state_test(f, l, depth=0):
                nc = f.nearest_calls(l)
                if not nc or depth > 3:
                    return False
                for kind, x in nc:
                    if kind != "call":
                        return False
                    if x.rsplit("::", 1)[-1] in ("eq", "ne"):
                        cs = [c for c in f.calls() if (c.term["fn"].get("res") or c.callee) == x or c.callee == x or c.defn == x]
                        if cs and all(any("TransactionState" in a for a in c.gargs) for c in cs):
                            continue
                        return False
                    if x.rsplit("::", 1)[-1] in ("matches", "discriminant"):
                        continue
                    g_ = p.raw_fns.get(x)
                    if g_ is not None and g_.locals and g_.locals[0] == "bool" and (active_pred(g_) or state_test(p.fn(x), 0, depth + 1)):
                        continue
                    return False
                return True
            st_blocks, extra = [], []
            for f in fam:
                sbs = [bi for bi, b in enumerate(f.blocks) for st in b["stmts"]
                       if any(isinstance(pe, str) and pe.startswith(".state:") for pe in st["dst"][1:])]
                st_blocks += sbs
                for sb in sbs:
                    for bi, b in enumerate(f.blocks):
                        t = b["term"]
                        if t["t"] != "switch" or not f.dominates(bi, sb) or bi == sb:
                            continue
                        # a switch that dominates the store and has an arm that does not lead to it decides the store
                        arms = [x[1] for x in t["targets"]] + [t["otherwise"]]
                        if all(sb in f.reachable(a, blocked={bi}) for a in arms):
                            continue
                        if t.get("ty") != "bool":
                            continue          # Option discriminant of Iterator::next: the iteration itself
                        if not state_test(f, op_local(t["o"])):
                            extra.append("%s bb%d" % (f.name, bi))
                if f is not fa and f.locals and f.locals[0] == "bool" and not state_test(f, 0):
                    extra.append("filter %s" % f.id.rsplit("::", 1)[-1])
                for c in f.calls():
                    if c.callee.rsplit("::", 1)[-1] in ("skip", "take", "step_by", "skip_while", "take_while", "nth", "last", "find", "position"):
                        extra.append(c.callee.rsplit("::", 1)[-1])
            cx.verdict(bool(st_blocks) and not extra, r4, "abort-all-spares-nobody", fa.where(),
                       "the Aborted store depends on `state == Active` only",
                       "abort_all skips some active transactions (extra condition at %s): VACUUM then treats the pending delete "
                       "of a still-open transaction as committed and removes the row physically; a later ROLLBACK cannot bring it back" % extra)
        if cv and cl:
            hv = g.dep_closure(op_local(cv[0].args[-1]))
            hc = g.dep_closure(op_local(cl[0].args[1]))
            src = lambda d: {c.callee for c in g.calls() if op_local({"c": c.dst}) in d}
            same = src(hv) == src(hc) and bool(src(hv))
            cx.verdict(same, r4, "one-horizon", cl[0].where(), "both horizons come from %s" % sorted(src(hv)),
                       "the aborted bitmap is cleared up to a value (%s) different from the horizon used to vacuum the "
                       "trees (%s): aborted transactions above the tree horizon lose their flag but keep their tuples" % (sorted(src(hc)), sorted(src(hv))))
        else:
            cx.bad(r4, "one-horizon", g.where(), "Catalog::vacuum or clear_aborted_up_to not called")
        # the coordinator's own cleanup reads the last committed id when it is called: it belongs to the same horizon only
        # while the VACUUM transaction itself has not committed yet
        vt = [c for c in g.calls() if c.callee == K.COORD + "::vacuum_transactions"]
        if vt:
            before = all(all(g.dominates(v.bb, c.bb) and v.bb != c.bb for c in cm) for v in vt) and bool(cm)
            cx.verdict(before, r4, "coordinator-cleanup-before-commit", vt[0].where(), "vacuum_transactions runs before the VACUUM transaction commits",
                       "vacuum_transactions runs after the VACUUM transaction committed: its cut-off (the last committed id) is then the "
                       "VACUUM's own id, the aborted entries of sessions that were open during VACUUM are dropped and their later writes "
                       "count as committed")
        good = bool(cm) and bool(ck) and all(any(g.dominates(c.bb, k.bb) for c in cm) for k in ck) and \
            all(any(g.dominates(v.bb, c.bb) for v in cv) for c in cm)
        cx.verdict(good, r4, "commit-then-checkpoint", g.where(), "vacuum < commit < checkpoint", "VACUUM does not end in commit + checkpoint")
        cx.verdict(p.all_success_paths_call(g, {K.PAGER_FLUSH}, 0), r4, "checkpoint-on-every-path", g.where(), "checkpoint on every success path",
                   "VACUUM can succeed without a checkpoint")

    # ---- C13.5 keep-rule of history trimming (structural part) ------------------------------------------------
    r5 = cx.rule("C13.5", "FLOW: Tuple::vaccum_with decides to keep a delta by comparing the delta's xmin with the horizon "
                 "parameter using >= (Ge(delta.xmin, oldest_active_xid))", floor=1)
    h = cx.guard(r5, "vaccum_with", p.fn, "storage::tuple::Tuple::vaccum_with")
    if h:
        cmps = [s for b in h.blocks for s in b["stmts"] if s["rv"].get("r") == "bin" and s["rv"]["op"] in ("Ge", "Gt", "Le", "Lt")
                and any(op_local(o) is not None and (op_local(o) == 2 or 2 in h.dep_closure(op_local(o))) for o in s["rv"]["o"])]
        good = False
        why = "no comparison with the horizon"
        for s in cmps:
            a, b2 = s["rv"]["o"]
            a_hor = op_local(a) is not None and (op_local(a) == 2 or 2 in h.dep_closure(op_local(a)))
            b_hor = op_local(b2) is not None and (op_local(b2) == 2 or 2 in h.dep_closure(op_local(b2)))
            xm = [c for c in h.calls() if c.callee == "storage::tuple::DeltaHeader::xmin"]
            other = b2 if a_hor else a
            from_xmin = any(op_local({"c": c.dst}) in h.dep_closure(op_local(other)) or op_local({"c": c.dst}) == op_local(other) for c in xm)
            if from_xmin and a_hor != b_hor:
                op = s["rv"]["op"]
                # relation between delta.xmin and the horizon that the result states when it is true
                rel = op if b_hor else {"Ge": "Le", "Le": "Ge", "Gt": "Lt", "Lt": "Gt"}[op]
                why = "%s(%s)" % (op, "delta.xmin, horizon" if b_hor else "horizon, delta.xmin")
                # which outcome keeps walking the chain (stays in the loop) and which stops (`if keep {..} else {break}` and
                # `if !keep {break}` are the same rule)
                res = s["dst"][0]
                stays = {}
                for bi, b in enumerate(h.blocks):
                    t = b["term"]
                    if t["t"] == "switch" and t.get("ty") == "bool" and op_local(t["o"]) is not None and \
                            res in (h.provenance_locals(op_local(t["o"])) | {op_local(t["o"])}):
                        heads = [hd for hd, body in core.natural_loops(h) if bi in body]
                        zero = [tg for v, tg in t["targets"] if v == 0]
                        for val, tg in ((0, zero[0] if zero else None), (1, t["otherwise"])):
                            if tg is not None:
                                stays[val] = any(hd in h.reachable(tg) for hd in heads)
                if stays.get(1) and stays.get(0) is False:
                    keep = rel
                elif stays.get(0) and stays.get(1) is False:
                    keep = {"Ge": "Lt", "Lt": "Ge", "Gt": "Le", "Le": "Gt"}[rel]
                else:
                    keep = None
                good = keep == "Ge"
                why += ", the chain walk goes on when delta.xmin %s horizon" % {"Ge": ">=", "Gt": ">", "Le": "<=", "Lt": "<", None: "?"}[keep]
        cx.verdict(good, r5, "keep-iff-xmin>=horizon", h.where(), why,
                   "vaccum_with compares with %s: a delta created exactly at the horizon (or all older ones) is trimmed/kept wrongly" % why)

    # ---- C13.6 engine stays usable -------------------------------------------------------------------------------
    r6 = cx.rule("C13.6", "WMC: the checkpoint that ends VACUUM leaves the cache capacity untouched (shared with C09.3)", floor=1)
    from .c09 import field_writers
    wc = field_writers(p, "io::cache::PageCache").get("capacity", set())
    cx.verdict(wc <= {"io::cache::PageCache::set_capacity"} and bool(wc), r6, "capacity-writers", "", "capacity written by %s" % sorted(wc),
               "PageCache.capacity is written by %s: after VACUUM every statement fails (D6)" % sorted(wc))

    # ---- C13.7 advisory: abort_all vs abort --------------------------------------------------------------------
    r7 = cx.rule("C13.7", "advisory (D21): abort_all marks transactions Aborted in memory without persisting them, unlike abort")
    fa = p.fns.get(K.COORD + "::abort_all")
    if fa:
        persists = p.reaches(fa.id, "storage::page::PageZeroHeader::mark_transaction_aborted")
        cx.advisory(r7, "abort_all-persistence", fa.where(),
                    "abort_all %s the aborted bitmap; no failing history is known because the same VACUUM removes the "
                    "aborted transactions' tuples" % ("reaches" if persists else "does not reach"))

    # ---- C13.8 (construct shared with C04.8) ---------------------------------------------------------------------
    from . import c04
    cx.include(c04, {"C04.8"}, "C13.8", "shared with C04.8: the decision table of Snapshot::is_transaction_aborted (the only status "
               "query VACUUM uses for deleters) equals `xid in aborted set`; a narrower answer makes VACUUM take a rolled-back "
               "delete for a committed one", floor=1, skip=("is_committed_before_snapshot", "is_valid_for_snapshot"))

    # ---- C13.9 an in-place rewrite of a cell replaces data and header together -------------------------------------------
    r9 = cx.rule("C13.9", "MPT: in BtreeOps::replace every copy of the new cell's bytes into the page is followed on every success path by "
                 "the store of the new cell's header (metadata): VACUUM shrinks a tuple's effective length without changing its padded "
                 "footprint, so a header that is only rewritten when the footprint changes keeps the old length and the trimmed "
                 "versions come back", floor=1)
    reps = [g for g in p.fns.values() if g.name == "replace" and "storage::core::traits::BtreeOps" in g.id and not g.root]
    if not reps:
        cx.bad(r9, "anchor-missing:replace", "", "BtreeOps::replace not found")
    for g in reps:
        copies = [c for c in g.calls() if c.callee.endswith("copy_from_slice")]
        metas = {c.callee for c in g.calls() if c.callee.rsplit("::", 1)[-1] == "metadata_mut"}
        good = bool(copies) and bool(metas)
        for c in copies:
            if c.term["to"] is not None:
                good = good and p.all_success_paths_call(g, metas, c.term["to"])
        cx.verdict(good, r9, "replace:header-with-data", g.where(), "%d in-place copy(ies), each followed by the header store" % len(copies),
                   "BtreeOps::replace can copy the new cell's bytes without storing its header: a cell rewritten with the same footprint "
                   "(what VACUUM's version trimming produces) keeps its old effective length, storage grows with every UPDATE/VACUUM cycle")

    # ---- C13.10 (construct shared with C11.4) -----------------------------------------------------------------------------
    from . import c11
    cx.include(c11, {"C11.4"}, "C13.10", "shared with C11.4: what VACUUM removes goes back to the pager - the removed cell's overflow chain is freed and "
               "the rebalance starts at the leaf the cell was taken from, so emptied leaves are merged and freed (bounded storage)", floor=10)

    # ---- C13.11 (construct shared with C04.1b) ------------------------------------------------------------------------
    cx.include(c04, {"C04.1b"}, "C13.11", "shared with C04.1b: the snapshot VACUUM works under is built from the complete in-memory Active and "
               "Aborted sets; abort_all marks the interrupted transactions there only, so a snapshot fed from the persisted bitmap "
               "takes them for committed and VACUUM removes rows whose DELETE never committed", floor=3)
