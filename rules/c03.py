"""C03 — ROLLBACK, a failed statement or a failed batch leaves no effects."""
from axvlib import core
from axvlib.core import AnchorMissing, op_local, op_const
from . import common as K

EXPLANATION = (
    "Decides the structural conditions of atomic rollback: commit is issued only on the success path of the "
    "statement runner (never reachable from an error outcome), a batch stops at its first failing statement, "
    "dropping a handle or a session aborts, every version/delete stamp written into a tuple is the writer's "
    "transaction id taken from the executing context (so that the aborted set hides it), abort marks the "
    "transaction Aborted, and no irreversible effect (returning tree pages to the free list) is reachable from a "
    "statement before commit.")
NOT_DECIDED = "that invisibility through the aborted set reproduces the pre-transaction state for every mix of operations"
ASSUMPTIONS = []

TUPLE = "storage::tuple::Tuple"
BUILD = "storage::tuple::TupleBuilder::<'a>::build"
DELETE = TUPLE + "::delete"
ADDV = TUPLE + "::add_version_with"
HDR_NEW = "storage::tuple::TupleHeader::new"
DHDR_NEW = "storage::tuple::DeltaHeader::new"
ID_SOURCES = {"runtime::context::ThreadContext::tid", "multithreading::coordinator::Snapshot::xid",
              "runtime::context::TransactionContext::tid", "multithreading::coordinator::TransactionHandle::id"}


def param_reaches_call(p, f, param, callee_pred, argpos=None, depth=0, seen=None):
    """does parameter local `param` of f flow into an argument of a call whose callee satisfies
    callee_pred (directly, or through callees that receive it)? returns a witness path or None"""
    seen = seen if seen is not None else set()
    key = (f.id, param)
    if key in seen or depth > 4:
        return None
    seen.add(key)
    for c in f.calls():
        for i, o in enumerate(c.args):
            l = op_local(o)
            if l is None:
                continue
            if l == param or param in f.dep_closure(l):
                if callee_pred(c.callee) and (argpos is None or i == argpos):
                    return [c.where() + " " + c.callee]
                g = p.fns.get(c.callee)
                if g is not None and i < g.nargs:
                    w = param_reaches_call(p, g, i + 1, callee_pred, argpos, depth + 1, seen)
                    if w:
                        return [c.where() + " " + c.callee] + w
    return None


def param_reaches_field_store(f, param, field_suffix):
    for b in f.blocks:
        for s in b["stmts"]:
            if any(isinstance(pe, str) and pe.startswith("." + field_suffix + ":") for pe in s["dst"][1:]):
                for o in s["rv"].get("o", []) if isinstance(s["rv"].get("o"), list) else []:
                    l = op_local(o)
                    if l is not None and (l == param or param in f.dep_closure(l)):
                        return True
    return False


def check(cx):
    p = cx.p

    # ---- C03.1 commit only on success ----------------------------------------------------
    r1 = cx.rule("C03.1", "MPR: in every autocommit entry point the statement runner dominates the COMMIT append and "
                 "the commit, and neither is reachable from an error outcome; a batch returns at its first failing "
                 "statement", floor=4)
    runners = {"runtime::QueryRunner::prepare_and_run", "runtime::QueryRunner::prepare_and_explain",
               "runtime::MultiQueryRunner::execute_all"}
    commit_appenders = set(K.appends_of(p, "Commit"))
    for fid in ("Database::execute::{closure#0}", "Database::explain::{closure#0}",
                "Database::execute_batch::{closure#1}"):
        f = cx.guard(r1, fid, p.fn, fid)
        if not f:
            continue
        run = [c for c in f.calls() if c.callee in runners]
        com = [c for c in f.calls() if c.callee == K.COMMIT_TX or c.callee in commit_appenders]
        errs = f.err_blocks()
        from_err = f.reachable(list(errs)) if errs else set()
        good = bool(run) and bool(com) and all(any(f.dominates(r.bb, c.bb) for r in run) for c in com) \
            and not any(c.bb in from_err for c in com)
        # the commit must sit on the Continue (success) arm of the runner's `?`
        if good:
            for r in run:
                # blocks reachable from the runner's return without the success edge = error arm
                pass
        cx.verdict(good, r1, fid, f.where(), "runner dominates commit; commit unreachable from error blocks",
                   "COMMIT can be appended/committed although the statement failed (or before it ran)")
        # stronger: every path from entry to a commit call passes the runner's *success* continuation:
        # no path from the runner call to commit that goes through an error block
        for r in run:
            # the runner's Result is propagated with `?` (possibly after map_err): it must reach Try::branch
            res = {op_local({"c": r.dst})}
            for _ in range(3):
                for c2 in f.calls():
                    if c2.callee.rsplit("::", 1)[-1] in ("map_err", "map", "and_then", "into") and any(op_local(o) in res for o in c2.args):
                        res.add(op_local({"c": c2.dst}))
            prop = any(c2.defn == core.STD_TRY_BRANCH and any(op_local(o) in res for o in c2.args) for c2 in f.calls())
            cx.verdict(prop, r1, fid + ":error-propagated", r.where(), "the statement's error leaves the closure through `?`",
                       "the result of the statement runner is not propagated with `?` (swallowed or defaulted): a failed "
                       "statement/batch falls through to COMMIT")
            succ_after = f.success_reach(r.term["to"]) if r.term["to"] is not None else set()
            ok2 = all(c.bb in succ_after for c in com)
            cx.verdict(ok2, r1, fid + ":success-arm", r.where(), "commit lies on the success continuation",
                       "commit is not on the success continuation of the statement runner")
    fa = cx.guard(r1, "execute_all", p.fn, "runtime::MultiQueryRunner::execute_all")
    if fa:
        run = [c for c in fa.calls() if c.callee == "runtime::QueryRunner::prepare_and_run"]
        good = bool(run)
        for r in run:
            # the error outcome of the statement must lead to return without running another statement
            errs = fa.err_blocks()
            re = fa.reachable([b for b in errs])
            good = good and not any(c.bb in re for c in run)
            # and the `?` must exist: some err block is reachable from the call's continuation
            good = good and bool(fa.reachable(r.term["to"]) & errs)
        cx.verdict(good, r1, "batch-fails-fast", fa.where(), "a failing statement ends the batch with an error",
                   "execute_all swallows a statement error or keeps executing after it")

    # ---- C03.2 abort on drop --------------------------------------------------------------
    r2 = cx.rule("C03.2", "TYPE/WMC: Drop for TransactionHandle calls abort; Drop for Session calls abort_transaction; "
                 "TransactionHandle::abort reaches TransactionCoordinator::abort", floor=3)
    for fid, tgt in (("<multithreading::coordinator::TransactionHandle as std::ops::Drop>::drop", K.HANDLE + "::abort"),
                     ("<tcp::session::Session as std::ops::Drop>::drop", "tcp::session::Session::abort_transaction"),
                     (K.HANDLE + "::abort", K.COORD + "::abort")):
        f = cx.guard(r2, fid, p.fn, fid)
        if f:
            cx.verdict(p.reaches(fid, tgt), r2, fid, f.where(), "reaches " + tgt,
                       "%s no longer reaches %s: an abandoned transaction is never rolled back" % (fid, tgt))
    # Session::abort_transaction must reach the coordinator abort as well
    f = p.fns.get("tcp::session::Session::abort_transaction")
    if f:
        cx.verdict(p.reaches(f.id, K.COORD + "::abort"), r2, f.id, f.where(), "reaches coordinator abort",
                   "Session::abort_transaction does not reach TransactionCoordinator::abort")

    # ---- C03.3 version stamps --------------------------------------------------------------
    r3 = cx.rule("C03.3", "FLOW: the transaction id passed to TupleBuilder::build / Tuple::delete / "
                 "Tuple::add_version_with is the id stamped into the new version (header xmin / xmax / version stamp)",
                 floor=3)
    fb = cx.guard(r3, "build", p.fn, BUILD)
    if fb:
        w = param_reaches_call(p, fb, 3, lambda c: c == HDR_NEW, argpos=1)
        cx.verdict(bool(w), r3, "build.xmin->header.xmin", fb.where(), " -> ".join(w or []),
                   "TupleBuilder::build does not stamp the new tuple with the xmin it was given")
    fd = cx.guard(r3, "delete", p.fn, DELETE)
    if fd:
        cx.verdict(param_reaches_field_store(fd, 2, "xmax"), r3, "delete.xid->header.xmax", fd.where(),
                   "xid is stored into header.xmax", "Tuple::delete does not stamp xmax with the deleter's id")
    fv = cx.guard(r3, "add_version_with", p.fn, ADDV)
    if fv:
        w = param_reaches_call(p, fv, 3, lambda c: c in (HDR_NEW, DHDR_NEW) or c.endswith("::write_delta"))
        cx.verdict(bool(w), r3, "add_version_with.new_xmin->stamp", fv.where(), " -> ".join(w or []),
                   "Tuple::add_version_with never uses new_xmin: the new version is stamped with the row creator's "
                   "id, so a rolled-back (or still open) UPDATE is visible to everybody (D3)")

    # ---- C03.4 who supplies the id ---------------------------------------------------------
    r4 = cx.rule("C03.4", "FLOW: at every production call of build/delete/add_version_with the id argument derives "
                 "from the executing context (ThreadContext::tid / Snapshot::xid), never from a constant or from the "
                 "stored tuple", floor=12)
    for callee, pos in ((BUILD, 2), (DELETE, 1), (ADDV, 2)):
        for c in K.sites(p, callee):
            if c.callee != callee:
                continue
            f = c.fn
            l = op_local(c.args[pos])
            okk = False
            why = "constant" if l is None else ""
            if l is not None:
                near = f.nearest_calls(l)
                srcs = {x for k, x in near if k == "call"}
                params = {x for k, x in near if k == "param" and f.locals[x] in ("u64",)}
                consts = {x for k, x in near if k == "const"}
                good_src = srcs & ID_SOURCES
                bad_src = srcs - ID_SOURCES
                okk = (bool(good_src) or bool(params)) and not bad_src and not consts
                why = "from %s" % (sorted(good_src) or ["parameter _%d" % a for a in sorted(params)])
                if bad_src or consts:
                    why = "from %s" % sorted(bad_src | {"constant " + c for c in consts})
            cx.verdict(okk, r4, "%s@%s#%d" % (callee.rsplit("::", 1)[-1], f.id, [x.bb for x in f.calls() if x.callee == callee].index(c.bb)),
                       c.where(), why, "transaction id argument of %s comes %s" % (callee, why))

    # ---- C03.5 abort marks (shared with C02.7) ------------------------------------------------
    r5 = cx.rule("C03.5", "FLOW/MPT: TransactionCoordinator::abort — the single funnel of explicit rollback, handle drop and failed statements — stores TransactionState::Aborted and persists the id on every success path", floor=2)
    f = cx.guard(r5, "abort", p.fn, K.COORD + "::abort")
    if f:
        st = [s for g in K.family(p, f) for _, s in core.region_aggregates(g, range(len(g.blocks)), "multithreading::coordinator::TransactionState")
              if s["rv"]["variant"] == "Aborted"]
        cx.verdict(bool(st), r5, "state", f.where(), "entry.state = Aborted", "abort does not store Aborted")
        T = p.must_reach_set({"storage::page::PageZeroHeader::mark_transaction_aborted"})
        cx.verdict(p.all_success_paths_call(f, T, 0), r5, "persist", f.where(),
                   "every abort (explicit, by drop, after a failed statement) persists the id in page zero",
                   "TransactionCoordinator::abort no longer persists the aborted id: transactions aborted by a "
                   "dropped handle (failed statement/batch) become visible after a clean reopen")

    # ---- C03.6 irreversible effects before commit ------------------------------------------------
    r6 = cx.rule("C03.6", "WMC: returning B-tree pages to the free list (Btree::dealloc) is not reachable from a "
                 "statement before commit; only VACUUM-time and recovery-internal paths may do it", floor=1)
    dealloc = "tree::bplustree::Btree::<Acc>::dealloc"
    cx.guard(r6, "dealloc", p.fn, dealloc)
    stmt_roots = ["runtime::QueryRunner::prepare_and_run"]
    reach = p.reach_forward(stmt_roots)
    callers = [c for c in K.callers_of(p, dealloc) if c in reach]
    if not callers:
        cx.ok(r6, "none", "", "no statement-reachable caller of Btree::dealloc")
    for c in callers:
        path = p.path(stmt_roots[0], {c}) or []
        cx.bad(r6, "caller:" + c, p.where_of(c),
               "pages of a dropped tree are freed inside the transaction (%s): after ROLLBACK the table is "
               "unreadable and the next allocation reuses its pages (D17)" % " -> ".join(path[-4:]))

    # ---- C03.7 (construct shared with C04.2) ---------------------------------------------------------------------
    from . import c04
    cx.include(c04, {"C04.2"}, "C03.7", "shared with C04.2: rolled-back work is hidden only by the snapshot-aware decoders; any read "
               "that decides on the existence of a row or catalog entry through a snapshot-unaware decoder sees rolled-back "
               "inserts, creates and deletes", floor=9)

    # ---- C03.8 (construct shared with C13.1) ---------------------------------------------------------------------
    from . import c13
    cx.include(c13, {"C13.1"}, "C03.8", "shared with C13.1: VACUUM, which forgets the aborted ids, must judge a deleted row by the fate of "
               "its deleter and persist the removal of a rolled-back deletion mark; otherwise a rolled-back DELETE takes effect "
               "after the next VACUUM", floor=3)

    # ---- C03.9 (construct shared with C04.1b) -----------------------------------------------------------------------
    cx.include(c04, {"C04.1b"}, "C03.9", "shared with C04.1b: every new snapshot carries the complete aborted set; a filtered set makes "
               "the writes of a rolled-back transaction visible", floor=4)

    # ---- C03.10 / C03.11 (constructs shared with C13.4 and C09.4) --------------------------------------------------
    cx.include(c13, {"C13.4"}, "C03.10", "shared with C13.4: VACUUM forgets transactions, tree versions and bitmap bits up to one horizon, "
               "taken before its own commit; a cleanup with a later cut-off forgets the rollback of sessions that were open during VACUUM", floor=6)
    from . import c09
    cx.include(c09, {"C09.4"}, "C03.11", "shared with C09.4: the persisted aborted set is written and read back with one bit layout; an id that is "
               "marked but not loaded on open turns a rolled-back transaction into a committed one after a clean restart", floor=4,
               skip=("drops-large-ids",))

    # ---- C03.12 / C03.13 (constructs shared with C02.1b and C06.3) ----------------------------------------------------------
    from . import c02, c06
    cx.include(c02, {"C02.1b"}, "C03.12", "shared with C02.1b: ROLLBACK and the drop of a session reach an Abort and never a Commit, whatever the "
               "statements of the transaction returned (a statement that failed half-way has already written rows)", floor=4)
    cx.include(c06, {"C06.3"}, "C03.13", "shared with C06.3: the index entry a DELETE stamps keeps its original creator; stamping a rebuilt tuple makes "
               "the entry belong to the deleter, so a rolled-back DELETE leaves the row out of its index", floor=6, skip=("update-arm:new-key-entry",))
