"""C01 — acknowledged commits survive a crash (DESIGN 5, C01)."""
from axvlib.core import AnchorMissing, op_local, op_const
from . import common as K

EXPLANATION = (
    "Decides the *shape* of the durability protocol on every path of every commit site: "
    "commit -> log force before the acknowledgement (must-pass-through over the MIR CFG with "
    "interprocedural must-reach summaries), the force really forces (writes queued blocks, current block, "
    "block zero, then File::sync_all), block placement and the block counter depend on what is already on "
    "disk, the log is truncated only after a checkpoint wrote back what it protects, DML logs before it "
    "mutates a tree, and only the pager appends to / forces the log. Each clause is a necessary condition: "
    "breaking it yields a concrete lost-commit history.")
NOT_DECIDED = ("that redo reproduces the effects of the logged operations (data dependent), OS fsync "
               "semantics, torn writes")
ASSUMPTIONS = ["File::sync_all makes previously written bytes durable"]

BTREE = "tree::bplustree::Btree"
MUTATORS = {"insert", "update", "upsert", "remove", "remove_tuple"}


def btree_mutators(p):
    out = {f.id for f in p.fns.values() if f.impl_adt == BTREE and f.name in MUTATORS}
    if len(out) < 3:
        raise AnchorMissing("Btree mutators (insert/update/upsert/remove) not found")
    return out


def check(cx):
    p = cx.p
    dur = cx.guard("C01.1", "durability-points", K.durability_points, p)
    if dur is None:
        return
    force = K.log_force_fns(p)
    cx.notes.append("log-force functions: %s" % sorted(force))

    # ---- C01.1 every commit site is followed by a durability point -------------------
    r1 = cx.rule("C01.1", "MPT: every success path from TransactionContext::commit_transaction to the return "
                 "of its caller passes a log force or a checkpoint (the acknowledgement is never sent before "
                 "the COMMIT record is on disk)", floor=7)
    ALLOW = {"Database::analyze::{closure#0}":
             "ANALYZE writes only optimizer statistics, which no property promises to keep"}
    for c in K.sites(p, K.COMMIT_TX):
        f = c.fn
        if f.id in ALLOW:
            cx.ok(r1, f.id, c.where(), "allow-listed: " + ALLOW[f.id])
            continue
        start = c.term["to"]
        good = start is not None and p.all_success_paths_call(f, dur, start)
        cx.verdict(good, r1, f.id, c.where(),
                   "commit is followed by a durability point on every success path",
                   "a success path leads from commit_transaction to `return` without forcing the log")

    # ---- C01.2 append -> force inside the commit protocol -----------------------------
    r2 = cx.rule("C01.2", "MPT: in every function that appends a COMMIT record the append is followed by the "
                 "force on every success path", floor=4)
    commit_appenders = K.appends_of(p, "Commit")  # log_commit
    users = set()
    for a in commit_appenders:
        for c in K.sites(p, a):
            users.add((c.fn.id, c.bb))
    for fid, bb in sorted(users):
        f = p.fn(fid)
        c = f.call_at(bb)
        good = p.all_success_paths_call(f, dur, c.term["to"])
        cx.verdict(good, r2, fid, c.where(), "COMMIT append is followed by the force",
                   "COMMIT record appended but a success path returns without forcing the log")

    # ---- C01.3 the force is a force -----------------------------------------------
    r3 = cx.rule("C01.3", "MPT: WriteAheadLog::perform_flush writes the queued blocks, the current block and "
                 "block zero and calls sync_all on every success path; sync_all is the last effect", floor=3)
    pf = cx.guard(r3, "perform_flush", p.fn, K.WAL + "::perform_flush")
    if pf:
        def is_write(x):
            return x == "std::io::Write::write_all" or x.endswith("::write_all")

        def is_seek(x):
            return x.endswith("as std::io::Seek>::seek")
        # a write may also be a call of a method of the log that always writes (write_header, a seek-and-write helper)
        WAL_METHODS = {g.id for g in p.raw_fns.values() if g.impl_adt == "io::wal::WriteAheadLog" and g.id != pf.id}
        W_ = {g for g in WAL_METHODS if any(is_write(c.callee) for c in p.fn(g).calls())
              and p.all_success_paths_call(p.fn(g), {c.callee for c in p.fn(g).calls() if is_write(c.callee)}, 0)}
        S_ = {g for g in W_ if any(is_seek(c.callee) for c in p.fn(g).calls())}

        def hdr_helper(g):
            f_ = p.fn(g)
            return any(is_write(c.callee) and any(f_.locals[l].find("BlockZeroHeader") >= 0 for l in f_.provenance_locals(op_local(c.args[1])) if l < len(f_.locals))
                       for c in f_.calls() if len(c.args) > 1 and op_local(c.args[1]) is not None)
        H_ = {g for g in W_ if hdr_helper(g)}
        writes = [c for c in pf.calls() if is_write(c.callee) or c.callee in W_]
        seeks = [c for c in pf.calls() if is_seek(c.callee) or c.callee in S_]
        syncs = [c for c in pf.calls() if c.callee.endswith("::sync_all")]
        cx.verdict(len(writes) >= 2 and len(seeks) >= 2, r3, "writes", pf.where(),
                   "%d block writes / %d seeks" % (len(writes), len(seeks)),
                   "perform_flush has %d write_all / %d seek calls; the data blocks and block zero "
                   "need one each" % (len(writes), len(seeks)))
        # every block write is positioned: between two writes (and before the first) the file is sought - a write that relies
        # on where the previous force left the cursor lands behind block zero when nothing was queued
        raw_writes = [c for c in pf.calls() if is_write(c.callee)]
        seek_bbs = {c.bb for c in pf.calls() if is_seek(c.callee)}
        starts = {0} | {c.term["to"] for c in raw_writes if c.term.get("to") is not None}
        unpos = pf.reachable(starts, blocked=seek_bbs) if raw_writes else set()
        late = [c for c in raw_writes if c.bb in unpos]
        if raw_writes:
            cx.verdict(not late, r3, "writes-positioned", (late[0] if late else raw_writes[0]).where(),
                       "each of the %d write_all calls is reached only through a seek issued after the previous write" % len(raw_writes),
                       "a block write can be reached without a seek since the previous write (or since entry): it lands wherever the "
                       "last force left the file position")
        good = bool(syncs) and p.all_success_paths_call(pf, {s.callee for s in syncs}, 0)
        cx.verdict(good, r3, "sync", pf.where(), "every success path ends in sync_all",
                   "a success path of perform_flush returns without sync_all")
        # block zero (the header, the only place that records total_blocks) is written on every success path
        hdr_writes = [c for c in writes if c.callee in H_ or (is_write(c.callee) and len(c.args) > 1 and op_local(c.args[1]) is not None and any(
            pf.locals[l].find("BlockZeroHeader") >= 0 for l in pf.provenance_locals(op_local(c.args[1])) if l < len(pf.locals)))]
        good = bool(hdr_writes) and not pf.success_returns_from(0, blocked={c.bb for c in hdr_writes})
        cx.verdict(good, r3, "header-write", pf.where(), "block zero is rewritten on every success path",
                   "a success path of perform_flush does not write block zero (the block count would be stale)")
        # block zero is the last block written: it is what makes the data blocks of this force part of the log, so a
        # crash between the two writes must leave the old header and not a header that counts blocks not yet written
        data_writes = [c for c in writes if c not in hdr_writes and not (c.term.get("inlined") and c.callee in W_)]
        if hdr_writes and data_writes:
            after = set()
            for h in hdr_writes:
                after |= pf.reachable(h.bb)
                after.discard(h.bb)
            late = [c for c in data_writes if c.bb in after]
            cx.verdict(not late, r3, "header-last", (late[0] if late else pf).where() if late else pf.where(),
                       "no data block is written after block zero",
                       "a data block is written after block zero: a crash in between leaves a header that counts "
                       "blocks the file does not hold")
        # and the sync comes after the header write
        if hdr_writes and syncs:
            good = all(any(pf.dominates(h.bb, s.bb) for h in hdr_writes) for s in syncs)
            cx.verdict(good, r3, "sync-after-header", pf.where(), "sync_all is dominated by the header write",
                       "sync_all is not preceded by the header write on every path")

    # ---- C01.4 placement depends on the log position --------------------------------
    r4 = cx.rule("C01.4", "FLOW: the file offset of every block write in perform_flush depends on log-position "
                 "state (a field of self other than block_size), and the persisted block counter is derived "
                 "from it — a force must never overwrite blocks placed by earlier forces", floor=2)
    if pf:
        # field reads of self: statements whose source place is (*_1).field
        pos_fields = set()
        pos_locals = set()
        for b in pf.blocks:
            for s in b["stmts"]:
                for o in (s["rv"].get("o") or []) if isinstance(s["rv"].get("o"), list) else []:
                    pl = o.get("c") or o.get("m")
                    if pl and pl[0] == 1 and len(pl) >= 3 and pl[1] == "*" and isinstance(pl[2], str):
                        fld = pl[2].split(":")[0][1:]
                        if fld not in ("block_size", "file"):
                            pos_fields.add(fld)
                            pos_locals.add(s["dst"][0])
        data_seeks = []
        for c in seeks if pf else []:
            if not is_seek(c.callee):
                if c.term.get("inlined") or c.callee in H_:
                    continue  # the helper's own seek is in the view / the header write at offset 0
                cl = set()
                for a in c.args:
                    if op_local(a) is not None:
                        cl |= pf.dep_closure(op_local(a))
                data_seeks.append(c)
                cx.verdict(bool(cl & pos_locals), r4, "seek-offset@%d" % len(data_seeks), c.where(),
                           "an argument of the positioned-write helper depends on log position state %s" % sorted(pos_fields),
                           "the offset of this block write depends only on block_size/constants: every force "
                           "rewrites the same blocks (D1)")
                continue
            # SeekFrom::Start(x): find the aggregate feeding arg 1
            l = op_local(c.args[1])
            cl = pf.dep_closure(l)
            consts_only = True
            starts_const0 = False
            def const_of(o, depth=0):
                """the constant an operand is, through copies (a parameter of an inlined helper is a copy of the argument)"""
                k = op_const(o)
                if k is not None:
                    return k.get("v")
                lo = op_local(o)
                if lo is None or depth > 5:
                    return None
                defs = [st for b_ in pf.blocks for st in b_["stmts"] if st["dst"] == [lo]]
                if len(defs) == 1 and defs[0]["rv"].get("r") in ("use", "cast") and defs[0]["rv"].get("o"):
                    return const_of(defs[0]["rv"]["o"][0], depth + 1)
                return None
            for b in pf.blocks:
                for s in b["stmts"]:
                    if s["dst"][0] == l and s["rv"].get("r") == "agg" and s["rv"].get("variant") == "Start":
                        if const_of(s["rv"]["o"][0]) == 0:
                            starts_const0 = True
            if starts_const0:
                continue  # the header write at offset 0
            data_seeks.append(c)
            good = bool(cl & pos_locals)
            cx.verdict(good, r4, "seek-offset@%d" % len(data_seeks), c.where(),
                       "offset depends on log position state %s" % sorted(pos_fields),
                       "the offset of this block write depends only on block_size/constants: every force "
                       "rewrites the same blocks (D1)")
        if not data_seeks:
            cx.bad(r4, "no-data-seek", pf.where(), "no positioned block write found")
        # total_blocks store
        tb_ok = None
        for b in pf.blocks:
            for s in b["stmts"]:
                d = s["dst"]
                if any(isinstance(x, str) and x.startswith(".total_blocks:") for x in d[1:]):
                    srcs = [op_local(o) for o in s["rv"].get("o", [])]
                    tb_ok = any(l is not None and (pf.dep_closure(l) & pos_locals) for l in srcs)
        cx.verdict(bool(tb_ok), r4, "total_blocks", pf.where(),
                   "wal_header.total_blocks is derived from the log position",
                   "wal_header.total_blocks is recomputed from this force only (or never stored)")

    # ---- C01.5 truncation only after write-back -------------------------------------
    r5 = cx.rule("C01.5", "WMC/MPR: File::set_len on the log is reached only through WriteAheadLog::truncate; "
                 "every truncation is dominated by the write-back of the dirty pages and of the header "
                 "(a checkpoint), because the log may be discarded only once what it protects is in the data file",
                 floor=3)
    trunc_callers = K.callers_of(p, K.WAL_TRUNCATE)
    EXPECT = {"io::pager::Pager::truncate_wal", K.PAGER_FLUSH, "<io::pager::Pager as io::disk::FileOperations>::truncate"}
    for t in trunc_callers:
        cx.verdict(t in EXPECT, r5, "caller:" + t, p.where_of(t), "expected truncation site",
                   "new caller of WriteAheadLog::truncate — the log may be discarded here without a checkpoint")
    # inside Pager::flush: write-back + sync_header dominate the truncate
    pfl = cx.guard(r5, "Pager::flush", p.fn, K.PAGER_FLUSH)
    if pfl:
        tr = [c for c in pfl.calls() if c.callee == K.WAL_TRUNCATE]
        sh = [c for c in pfl.calls() if c.callee == K.PAGER + "::sync_header"]
        wf = [c for c in pfl.calls() if c.callee == K.WAL_FLUSH]
        # write-back loop: a call that runs a closure reaching write_block
        wb = []
        for c in pfl.calls():
            for t in p.targets(c):
                if t != c.callee and t in p.fns and p.reaches(t, K.PAGER + "::write_block"):
                    wb.append(c)
        good = bool(tr) and all(any(pfl.dominates(s.bb, t.bb) for s in sh) for t in tr)
        cx.verdict(good, r5, "flush:header-before-truncate", pfl.where(),
                   "sync_header dominates the log truncation", "log truncated before the header is written back")
        good = bool(tr) and bool(wb) and all(
            t.bb not in pfl.reachable(0, blocked={s.bb for s in sh}) for t in tr)
        cx.verdict(bool(wb), r5, "flush:write-back-exists", pfl.where(), "dirty pages are written back",
                   "Pager::flush no longer writes dirty pages back")
        # the dirty-page loop precedes sync_header: every path to sync_header passed the loop head
        good = bool(wf) and bool(tr) and all(any(pfl.dominates(w.bb, t.bb) for w in wf) for t in tr)
        cx.verdict(good, r5, "flush:force-before-truncate", pfl.where(),
                   "the log is forced before page write-back and truncation",
                   "checkpoint truncates a log it has not forced")
        if wb and sh:
            # no path from entry to sync_header avoiding the loop (the loop header block dominates sync_header)
            loop_calls = {c.bb for c in pfl.calls() if "IntoIterator" in c.callee or "Iterator" in c.callee}
            good = all(any(pfl.dominates(l, s.bb) for l in loop_calls) for s in sh)
            cx.verdict(good, r5, "flush:write-back-before-header", pfl.where(),
                       "the write-back loop dominates sync_header", "sync_header is reachable without the write-back loop")
    # truncate_wal: every caller must have checkpointed first
    for c in K.sites(p, K.PAGER + "::truncate_wal"):
        f = c.fn
        dom_ckpt = any(pc.bb != c.bb and f.dominates(pc.bb, c.bb) and
                       (pc.callee == K.PAGER_FLUSH or K.PAGER_FLUSH in p.reach_forward([pc.callee]) and
                        pc.callee in p.must_reach_set({K.PAGER_FLUSH}))
                       for pc in f.calls())
        cx.verdict(dom_ckpt, r5, "truncate_wal:" + f.id, c.where(),
                   "truncation is dominated by a checkpoint",
                   "the log is truncated after recovery without writing the recovered pages back: a second "
                   "crash before the next checkpoint loses everything that was only in the log (D26)")

    # ---- C01.6 log before tree write in DML ------------------------------------------
    r6 = cx.rule("C01.6", "MPR: in DmlExecutor::{insert,update,delete} the log append dominates every B-tree "
                 "mutation (write-ahead at the logical level)", floor=3)
    muts = cx.guard(r6, "btree-mutators", btree_mutators, p)
    appenders = {f for f in p.must_reach_set({K.PUSH_TO_LOG}) if f in p.fns and p.fns[f].impl_adt == K.LOGGER}
    if muts:
        DMLX = "runtime::dml::DmlExecutor"
        fam = [g for g in p.fns.values() if (g.impl_adt == DMLX or (g.root or "").startswith(DMLX + "::"))
               and (g.root or g.id) != DMLX + "::maintain_secondary_indexes"]
        for g in sorted(fam, key=lambda x: x.id):
            mc = [c for c in g.calls() if c.callee in muts]
            if not mc:
                continue
            good = all(p.dominated_interproc(g, m.bb, appenders) for m in mc)
            cx.verdict(good, r6, g.id.rsplit("::", 1)[-1], g.where(),
                       "%d tree write(s) all preceded by a log append (in the function or in every caller)" % len(mc),
                       "a B-tree mutation in %s is not preceded by the log append" % g.id)

    # ---- C01.7 who may append / force ---------------------------------------------------
    r7 = cx.rule("C01.7", "WMC: WriteAheadLog::push is called only by Pager::push_to_log, perform_flush only by "
                 "<WriteAheadLog as Write>::flush; the log file is opened only by WriteAheadLog::{create,open}",
                 floor=2)
    for callee, allowed in ((K.WAL + "::push", {K.PUSH_TO_LOG}),
                            (K.WAL + "::perform_flush", {K.WAL_FLUSH})):
        cs = K.callers_of(p, callee, allowed)
        if not cs:
            cx.bad(r7, "no-caller:" + callee, "", "%s has no caller" % callee)
        for c in cs:
            cx.verdict(c in allowed, r7, "%s<-%s" % (callee, c), p.where_of(c), "expected caller",
                       "unexpected caller of %s" % callee)


    # ---- C01.8 / C01.9 recovery really redoes committed work (constructs shared with C02 / C08) -----------
    from . import c02, c08
    cx.include(c02, {"C02.2", "C02.4"}, "C01.9", "shared with C02.2/C02.4: the analysis pass puts every transaction with a "
               "COMMIT record into the redo set unconditionally, redo consults all operation maps, open() always recovers", floor=8)
    cx.include(c08, {"C08.8", "C08.1", "C08.13"}, "C01.8", "shared with C08.8/C08.1/C08.13 (the DDL handlers decode each payload slot as what the statement put there): recovery decodes the logged images raw (never through a "
               "snapshot) and discards the log only by a checkpoint after commit", floor=8)

    # ---- C01.10 (construct shared with C17.3) -----------------------------------------------------------------------
    from . import c17
    cx.include(c17, {"C17.3"}, "C01.10", "shared with C17.3: records are placed so that the log reads back in append order (block "
               "zero takes records only while it is the last block); a COMMIT read back before its BEGIN makes recovery undo an "
               "acknowledged transaction", floor=5)

    # ---- C01.11 redo re-applies every logged operation of a committed transaction ----------------------------------------
    r11 = cx.rule("C01.11", "MPR: in WalRecuperator::run_redo each redo handler call (redo_insert/update/delete/create/alter/drop) is decided only by "
                  "the lookup of the record in its operation map (and by the loops over transactions and LSNs): no further condition "
                  "skips a logged operation of a committed transaction (redo_update applies column differences, so an `older image is "
                  "superseded` shortcut loses the columns only the skipped record changed)", floor=6)
    fr = cx.guard(r11, "run_redo", p.fn, "io::recovery::WalRecuperator::run_redo")
    if fr:
        handlers = [c for c in fr.calls() if c.callee.startswith("io::recovery::WalRecuperator::redo_")]
        if len(handlers) < 6:
            cx.bad(r11, "handlers", fr.where(), "run_redo calls %d redo handlers (expected one per operation kind)" % len(handlers))
        from axvlib.core import natural_loops as _nl1, enum_switches as _es1
        opt_sw = {bi: src for bi, adt, m, oth, src in _es1(p, fr) if adt in ("std::option::Option", "std::ops::ControlFlow", "std::result::Result")}
        for c in handlers:
            extra = []
            for bi, b in enumerate(fr.blocks):
                t = b["term"]
                if t["t"] != "switch" or not fr.dominates(bi, c.bb) or bi == c.bb:
                    continue
                arms = [x[1] for x in t["targets"]] + [t["otherwise"]]
                if all(c.bb in fr.reachable(a, blocked={bi}) for a in arms):
                    continue
                if bi in opt_sw:
                    continue            # Some/None of a map lookup, of Iterator::next, or the `?` of a previous handler
                extra.append(bi)
            name = c.callee.rsplit("::", 1)[-1]
            cx.verdict(not extra, r11, name, c.where(), "decided by the map lookup only",
                       "run_redo calls %s under an additional condition (bb%s): a logged operation of a committed transaction can be skipped "
                       "during recovery and the acknowledged change is lost" % (name, extra))
