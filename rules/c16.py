"""C16 — any statement yields a result or an error: never a panic, never a hang (partly claimed)."""
import re
from axvlib import core
from axvlib.core import AnchorMissing, op_local, op_const, enum_switches, dominated, natural_loops
from . import common as K

EXPLANATION = (
    "Decides the structural panic/hang surface reachable from statement execution: the pool worker runs every job "
    "under catch_unwind; integer division/remainder in the evaluator is dominated by the zero-divisor check; the explicit "
    "panic constructs (unwrap/expect/panic!) in the input-facing layers (parser, binder, planner, evaluator, operators, "
    "value types) do not exceed the per-function census taken from the audited tree, so a new one is reported; the "
    "evaluator arms that still panic, the u8 row-version counter and the unguarded parser recursion are listed known "
    "findings; every lexer loop that consumes input has an exit on end of input; while-loops in statement scope whose "
    "condition cannot change are reported; parking_lot locks are not re-acquired on a path that already holds them "
    "(shared with C14).")
NOT_DECIDED = ("termination in general; panics from arithmetic overflow in debug builds; internal-invariant panics of "
               "the storage layer (counted in the evidence, not judged); that the database holds exactly the data it "
               "held before a failing statement (that is C03)")
ASSUMPTIONS = ["panics are contained per job by catch_unwind; a panicking statement is reported to the client as an internal error"]

ROOTS = ["runtime::QueryRunner::prepare_and_run", "runtime::QueryRunner::prepare_and_explain",
         "runtime::MultiQueryRunner::execute_all"]
FRONT = re.compile(r"^<?(sql::|runtime::|types::)")

# explicit panic constructs in input-facing functions, counted on the audited tree (function, kind) -> count
BUDGET = {
    ("<runtime::ops::index_scan::IndexScan as runtime::Executor>::next", "Option::unwrap"): 2,
    ("<runtime::ops::index_scan::IndexScan as runtime::Executor>::next::{closure#0}", "Result::expect"): 1,
    ("<runtime::ops::index_scan::IndexScan as runtime::Executor>::next::{closure#1}", "Result::expect"): 1,
    ("<runtime::ops::join::HashJoin<Left, Right> as runtime::Executor>::next", "Option::unwrap"): 2,
    ("<runtime::ops::join::MergeJoin<Left, Right> as runtime::Executor>::next", "Option::unwrap"): 7,
    ("<runtime::ops::join::NestedLoopJoin<Left, Right> as runtime::Executor>::next", "Option::unwrap"): 1,
    ("<runtime::ops::seq_scan::SeqScan as runtime::Executor>::next", "Option::unwrap"): 1,
    ("<runtime::ops::seq_scan::SeqScan as runtime::Executor>::next::{closure#0}", "Result::expect"): 1,
    ("<sql::planner::rules::FilterPushdownJoinRule as sql::planner::rules::TransformationRule>::apply", "Option::unwrap"): 1,
    ("runtime::ddl::DdlExecutor::populate_index::{closure#1}", "Result::unwrap"): 1,
    ("runtime::dml::DmlExecutor::delete", "Option::expect"): 1,
    ("runtime::dml::DmlExecutor::update", "Option::expect"): 2,
    ("runtime::eval::ExpressionEvaluator::<'a>::evaluate", "Option::unwrap"): 1,
    ("runtime::eval::ExpressionEvaluator::<'a>::evaluate", "panic!"): 4,      # D13, judged per arm by C05.4
    ("runtime::eval::ExpressionEvaluator::<'a>::evaluate_as_single_value", "Option::expect"): 1,
    ("sql::binder::resolve_in_scope", "Option::unwrap"): 1,
    ("sql::parser::Parser::parse_prefix", "Option::unwrap"): 1,
    ("sql::planner::CascadesOptimizer::<'a>::implement_group::{closure#2}", "Option::unwrap"): 1,
    ("sql::planner::prop::PropertyDeriver::<S>::derive_aggregate", "Option::expect"): 1,
    ("sql::planner::prop::PropertyDeriver::<S>::derive_distinct", "Option::expect"): 1,
    ("sql::planner::prop::PropertyDeriver::<S>::derive_filter", "Option::expect"): 1,
    ("sql::planner::prop::PropertyDeriver::<S>::derive_join", "Option::expect"): 2,
    ("sql::planner::prop::PropertyDeriver::<S>::derive_limit", "Option::expect"): 1,
    ("sql::planner::prop::PropertyDeriver::<S>::derive_passthrough", "Option::expect"): 1,
    ("sql::planner::prop::PropertyDeriver::<S>::derive_project", "Option::expect"): 1,
    ("types::blob::BlobComparator::partial_cmp_blobs", "Result::unwrap"): 2,
    ("types::varint::VarInt::<'a>::value", "panic!"): 1,
}


def check(cx):
    p = cx.p
    # ---- C16.1 panic containment --------------------------------------------------------------------
    r1 = cx.rule("C16.1", "MPR: the worker loop executes each job through std::panic::catch_unwind and never calls the "
                 "boxed task directly", floor=1)
    f = cx.guard(r1, "worker-loop", p.fn, "multithreading::threadpool::Worker::new::{closure#0}")
    if f:
        cu = [c for c in f.calls() if c.callee == "std::panic::catch_unwind" and any("FnOnce" in g for g in c.gargs)]
        direct = [c for c in f.calls() if c.defn in ("std::ops::FnOnce::call_once",) and any("dyn" in g and "FnOnce" in g for g in c.gargs)]
        cx.verdict(bool(cu) and not direct, r1, "worker-loop", f.where(), "task runs under catch_unwind",
                   "the worker calls the task %s: a panicking statement kills the worker thread and the pool shrinks (D10)" % (
                       "directly as well" if cu else "without catch_unwind"))

    # ---- C16.2 explicit panic constructs in input-facing code --------------------------------------------
    r2 = cx.rule("C16.2", "PANIC: explicit panic constructs (unwrap/expect/panic!/todo!/unreachable!) in input-facing "
                 "functions reachable from statement execution do not exceed the audited per-function census", floor=25)
    reach = p.reach_forward(ROOTS)
    front = [fid for fid in reach if fid in p.fns and FRONT.match(fid)]
    sites = K.check_panic_budget(cx, r2, p, front, BUDGET, "the audited census of this function")
    back = K.panic_sites(p, [fid for fid in reach if fid in p.fns and not FRONT.match(fid)])
    cx.notes.append("storage/tree/io layer: %d explicit panic sites in %d functions reachable from statements are internal "
                    "invariants, counted but not judged" % (sum(len(v) for v in back.values()), len({k[0] for k in back})))

    # integer division guard
    r2b = cx.rule("C16.2b", "MPR: every call of DataType::div / DataType::rem in the evaluator is dominated by the "
                  "zero-divisor check", floor=2)
    fe = cx.guard(r2b, "eval_binary_op", p.method, "runtime::eval::ExpressionEvaluator", "eval_binary_op")
    if fe:
        chk = [c for c in fe.calls() if c.callee.endswith("ExpressionEvaluator::<'a>::check_divisor")]
        for name in ("div", "rem"):
            ds = [c for c in fe.calls() if c.callee == "types::DataType::" + name]
            if not ds:
                cx.bad(r2b, name + ":not-found", fe.where(), "DataType::%s is not called from eval_binary_op" % name)
            for d in ds:
                good = any(fe.dominates(c.bb, d.bb) and c.term["to"] is not None and d.bb in fe.success_reach(c.term["to"]) for c in chk)
                cx.verdict(good, r2b, name, d.where(), "check_divisor dominates the division",
                           "DataType::%s is called without the zero-divisor check: integer x %s 0 panics (D11)" % (name, "/" if name == "div" else "%"))
        # no other caller divides DataType values
        for name in ("div", "rem"):
            for c in K.callers_of(p, "types::DataType::" + name, {fe.id}):
                cx.verdict(c == fe.id, r2b, "caller:%s<-%s" % (name, c), p.where_of(c), "only eval_binary_op divides",
                           "%s divides DataType values without the evaluator's zero check" % c)

    # ---- C16.3 narrow persisted counters ----------------------------------------------------------------------
    r3 = cx.rule("C16.3", "PANIC: additions on u8 persisted counters (row version) are dominated by a range test", floor=1)
    fa = cx.guard(r3, "add_version_with", p.fn, "storage::tuple::Tuple::add_version_with")
    if fa:
        asserts = [(bi, b["term"]) for bi, b in enumerate(fa.blocks) if b["term"]["t"] == "assert" and b["term"]["msg"] == "Overflow(Add)"
                   and any((fa.locals[op_local(o)] if op_local(o) is not None else (op_const(o) or {}).get("ty")) == "u8" for o in b["term"]["mo"])]
        if not asserts:
            cx.ok(r3, "version-counter", fa.where(), "no unchecked u8 addition")
        for bi, t in asserts:
            l = [op_local(o) for o in t["mo"] if op_local(o) is not None]
            guarded = False
            for gi, g in enumerate(fa.blocks):
                gt = g["term"]
                if gt["t"] == "switch" and gi != bi and fa.dominates(gi, bi):
                    dl = op_local(gt["o"])
                    if dl is None:
                        continue
                    # the switch must test a comparison one operand of which is the counter value itself
                    for bb in fa.blocks:
                        for s in bb["stmts"]:
                            if s["dst"] == [dl] and s["rv"].get("r") == "bin" and s["rv"]["op"] in ("Lt", "Le", "Gt", "Ge", "Eq", "Ne"):
                                if any(op_local(o) in l or (op_local(o) is not None and set(l) & fa.dep_closure(op_local(o))) for o in s["rv"]["o"]):
                                    guarded = True
                    for c in fa.calls():
                        if op_local({"c": c.dst}) == dl and c.callee.rsplit("::", 1)[-1] in ("checked_add",):
                            guarded = True
            cx.verdict(guarded, r3, "version-counter", fa.where(), "u8 version increment is range-checked",
                       "old_version + 1 on a u8 without a range test: the 256th version of a row panics — and every "
                       "INSERT adds a version to the table's catalog row, so the 256th INSERT into any table panics (D12)")

    # ---- C16.3b every other narrow counter ---------------------------------------------------------------------------
    r3b = cx.rule("C16.3b", "PANIC: census of overflow-asserting additions on u8/u16 values anywhere in the library: each site is in the "
                  "justified table (bounded by construction) - a narrow counter of unbounded events (evictions, versions, ...) panics "
                  "the worker when it wraps", floor=2)
    # justified by what is counted (the field the addition reads and writes back), not by where the addition is written
    NARROW_OK = {
        "sql::planner::CascadesOptimizer.transformations_applied": "per-statement statistics of one optimizer run (bounded by the memo of one query)",
        "storage::page::BtreePageHeader.num_slots": "slot count of one page, bounded by the page size (<= 64 KiB)",
    }

    def counted(f, o, depth=0):
        """the field an operand of the addition is read from: `type.field` (through Cell::get, casts, copies)"""
        pl = (o.get("c") or o.get("m")) if isinstance(o, dict) else None
        if not pl or depth > 6:
            return None
        for pe in reversed(pl[1:]):
            if isinstance(pe, str) and pe.startswith(".") and ":" in pe:
                name, _, adt = pe[1:].partition(":")
                return "%s.%s" % (adt.split("<")[0], name)
        l = pl[0]
        for b_ in f.blocks:
            for st in b_["stmts"]:
                if st["dst"] == [l]:
                    rv = st["rv"]
                    if rv.get("r") in ("ref", "rawptr"):
                        r_ = counted(f, {"c": rv["p"]}, depth + 1)
                        if r_:
                            return r_
                    for o2 in (rv.get("o") or []) if isinstance(rv.get("o"), list) else []:
                        r_ = counted(f, o2, depth + 1)
                        if r_:
                            return r_
            t_ = b_["term"]
            if t_["t"] == "call" and t_.get("dst") == [l] and t_.get("args"):
                r_ = counted(f, t_["args"][0], depth + 1)
                if r_:
                    return r_
        return None
    seen_n = set()
    for f in sorted(p.fns.values(), key=lambda x: x.id):
        if f.id.startswith("axmos_") or "::tests::" in f.id or f.id.startswith("tcp::"):
            continue
        for bi, b in enumerate(f.blocks):
            t = b["term"]
            if t["t"] == "assert" and str(t.get("msg", "")).startswith("Overflow(Add"):
                tys = [(f.locals[op_local(o)] if op_local(o) is not None else (op_const(o) or {}).get("ty")) for o in t["mo"]]
                if not any(x in ("u8", "u16") for x in tys):
                    continue
                what = None
                for o in t["mo"]:
                    what = what or counted(f, o)
                key = what or (f.root or f.id)
                if key in seen_n:
                    continue
                seen_n.add(key)
                cx.verdict(key in NARROW_OK, r3b, "narrow-add@" + key, f.where(), NARROW_OK.get(key, ""),
                           "%s adds to a %s (%s) with overflow checking and that counter is not in the justified table: a counter of unbounded events "
                           "panics when it wraps (e.g. the eviction counter after 65535 evictions kills every statement that evicts)" % (
                               f.root or f.id, "/".join(sorted({x for x in tys if x in ("u8", "u16")})), key))

    # ---- C16.8 plan constants -------------------------------------------------------------------------------------------
    r8 = cx.rule("C16.8", "PANIC: executors (runtime::ops) do no overflow-asserting arithmetic (+, -, *) on values read from plan-operator "
                 "fields (sql::planner::physical::*): those are statement constants - LIMIT/OFFSET literals, which the parser "
                 "saturates, and the usize::MAX `no limit` marker - so `offset + limit` panics in the worker (expected zero sites)")
    n_ar, n_fn = 0, 0
    for f in sorted(p.fns.values(), key=lambda x: x.id):
        if not (f.id.startswith("runtime::ops") or f.id.startswith("<runtime::ops")):
            continue
        n_fn += 1
        plan_reads = set()
        for b in f.blocks:
            for st in b["stmts"]:
                ops_ = st["rv"].get("o") if isinstance(st["rv"].get("o"), list) else []
                for o in ops_:
                    pl = o.get("c") or o.get("m") or []
                    if any(isinstance(pe, str) and ":sql::planner::physical::" in pe for pe in pl[1:]) and len(st["dst"]) == 1:
                        ty = f.locals[st["dst"][0]]
                        if ty in ("usize", "u64", "u32", "i64", "std::option::Option<usize>", "std::option::Option<u64>"):
                            plan_reads.add(st["dst"][0])
                if st["rv"].get("r") == "ref" and any(isinstance(pe, str) and ":sql::planner::physical::" in pe for pe in st["rv"]["p"][1:]) and len(st["dst"]) == 1:
                    ty = f.locals[st["dst"][0]]
                    if any(x in ty for x in ("usize", "u64", "Option<usize>")) and "Vec" not in ty and "Schema" not in ty:
                        plan_reads.add(st["dst"][0])
        if not plan_reads:
            continue
        for b in f.blocks:
            for st in b["stmts"]:
                rv = st["rv"]
                if rv.get("r") == "bin" and rv["op"] in ("AddWithOverflow", "MulWithOverflow", "SubWithOverflow", "Add", "Mul", "Sub"):
                    n_ar += 1
                    tainted = [o for o in rv["o"] if op_local(o) is not None and (plan_reads & (f.dep_closure(op_local(o)) | {op_local(o)}))]
                    if tainted:
                        cx.bad(r8, "%s:%s" % (f.id, rv["op"]), f.where(), "%s computes %s on a value read from a plan operator field: a statement with "
                               "OFFSET k and no LIMIT (limit = usize::MAX) or a huge LIMIT literal overflows and panics in the worker" % (f.id, rv["op"]))
    cx.ok(r8, "census", "", "%d executor functions examined (%d arithmetic sites in those that read plan fields), none on plan constants" % (n_fn, n_ar))

    # ---- C16.4 recursion depth -----------------------------------------------------------------------------------
    r4 = cx.rule("C16.4", "PANIC: every recursion cycle among the Parser's methods passes through a method that calls the "
                 "depth guard on every success path (the guard compares the parser's depth field with a constant and "
                 "fails), the operator-chain loop of parse_expr_bp charges the guard once per operator, and the Lexer's methods do not recurse at all", floor=3)
    PARSER = "sql::parser::Parser"
    meths = {g.id: g for g in p.fns.values() if g.impl_adt == PARSER}
    guards = set()
    for g in meths.values():
        reads_depth = any(any(isinstance(pe_, str) and pe_.startswith(".depth:") for pe_ in (o.get("c") or o.get("m") or [])[1:])
                          for b in g.blocks for s in b["stmts"] for o in (s["rv"].get("o") or []) if isinstance(s["rv"].get("o"), list))
        cmps = [s for b in g.blocks for s in b["stmts"] if s["rv"].get("r") == "bin" and s["rv"]["op"] in ("Ge", "Gt", "Lt", "Le")]
        if reads_depth and cmps and g.err_blocks():
            guards.add(g.id)
    if not guards:
        cx.bad(r4, "parser-recursion", "", "the parser has no depth guard: a few hundred nested parentheses/subqueries "
               "overflow the stack and abort the process (D14)")
    else:
        guarded = {g.id for g in meths.values() if p.all_success_paths_call(g, guards, 0)} | guards
        # remaining graph among parser methods must be acyclic
        edges = {a: {b for b in p.edges().get(a, ()) if b in meths and b not in guarded} for a in meths if a not in guarded}
        color = {}
        cyc = []

        def dfs(u, path):
            color[u] = 1
            for v in sorted(edges.get(u, ())):
                if color.get(v) == 1:
                    cyc.append(path[path.index(v):] + [v] if v in path else [u, v])
                elif color.get(v) is None:
                    dfs(v, path + [v])
            color[u] = 2
        for u in sorted(edges):
            if color.get(u) is None:
                dfs(u, [u])
        cx.verdict(not cyc, r4, "parser-recursion", p.fn(sorted(guards)[0]).where(),
                   "every parser cycle passes a depth-guarded method (%s)" % sorted(x.rsplit("::", 1)[-1] for x in guarded - guards),
                   "parser recursion cycle without depth guard: %s" % [[x.rsplit("::", 1)[-1] for x in c] for c in cyc[:2]])
        # the chain loop: inside the loop of the function that calls parse_infix, the guard is charged before each parse_infix
        for g in meths.values():
            inf = [c for c in g.calls() if c.callee == PARSER + "::parse_infix"]
            if not inf:
                continue
            for h, body in natural_loops(g):
                li = [c for c in inf if c.bb in body]
                if not li:
                    continue
                gs = [c for c in g.calls() if c.callee in guards and c.bb in body]
                good = bool(gs) and all(any(g.dominates(x.bb, c.bb) for x in gs) for c in li)
                cx.verdict(good, r4, "operator-chain", g.where(), "each operator application is charged against the depth budget",
                           "the operator-chain loop applies operators without charging the depth guard: `a OR b OR ...` with a "
                           "few hundred terms builds a tree deep enough to overflow the stack downstream (D14)")

    # the lexer: skipped input (comments, unknown characters) must be consumed iteratively — no recursion cycle among
    # the Lexer's methods at all (there is no depth to charge: the depth would be the length of the skipped run)
    LEX = "sql::parser::lexer::Lexer"
    lm = {g.id for g in p.fns.values() if g.impl_adt == LEX or (g.root or "").startswith(LEX + "::")}
    if len(lm) < 8:
        cx.bad(r4, "lexer-recursion:anchor-missing", "", "Lexer methods not found")
    else:
        ledges = {a: {b for b in p.edges().get(a, ()) if b in lm} for a in lm}
        lcyc = []
        col = {}

        def dfs2(u, path):
            col[u] = 1
            for v in sorted(ledges.get(u, ())):
                if col.get(v) == 1:
                    lcyc.append(path[path.index(v):] + [v] if v in path else [u, v])
                elif col.get(v) is None:
                    dfs2(v, path + [v])
            col[u] = 2
        for u in sorted(lm):
            if col.get(u) is None:
                dfs2(u, [u])
        nt = p.fns.get(LEX + "::next_token")
        cx.verdict(not lcyc, r4, "lexer-recursion", nt.where() if nt else "",
                   "no recursion among the %d Lexer methods: skipped input is consumed in a loop" % len(lm),
                   "the lexer recurses (%s): one stack frame per skipped comment/unknown character, so a statement with a "
                   "long run of them overflows the stack and aborts the process (D33)" % [[x.rsplit("::", 1)[-1] for x in c] for c in lcyc[:2]])

    # ---- C16.5 loops ---------------------------------------------------------------------------------------------------
    r5 = cx.rule("C16.5", "LOOP: every lexer loop that calls advance() contains a test of current_char for end of input "
                 "whose None arm leaves the loop", floor=6)
    for g in p.fns.values():
        if not g.id.startswith("sql::parser::lexer::Lexer::"):
            continue
        for h, body in natural_loops(g):
            adv = [c for c in g.calls() if c.bb in body and c.callee == "sql::parser::lexer::Lexer::advance"]
            if not adv:
                continue
            good = False
            for bi, adt, m, oth, src in enum_switches(p, g):
                if bi in body and adt == "std::option::Option" and any(isinstance(pe_, str) and pe_.startswith(".current_char:") for pe_ in src[1:]):
                    none_t = m.get("None", oth)
                    if none_t not in body or not (g.reachable(none_t) & {h}):
                        good = True
                    elif none_t in body:
                        # the None arm may pass a few blocks before leaving
                        good = good or not (g.reachable(none_t, blocked={h}) <= body)
            cx.verdict(good, r5, "%s@bb%d" % (g.id, h), g.where(), "loop exits when current_char is None",
                       "a lexer loop that consumes input has no exit on end of input: a statement ending inside this "
                       "construct (e.g. a trailing `--` comment) spins forever")

    r6 = cx.rule("C16.6", "LOOP: in statement scope no `while` loop exists whose exit condition reads only places the loop "
                 "body never writes and that has no other exit (expected zero)")
    n_loops = 0
    for fid in reach:
        g = p.fns.get(fid)
        if not g:
            continue
        for h, body in natural_loops(g):
            n_loops += 1
            exits = [(b, s) for b in body for s in g.succ(b) if s not in body]
            calls_in = [c for c in g.calls() if c.bb in body]
            stores = [s for b in body for s in g.blocks[b]["stmts"]]
            if not exits:
                # a loop without any exit edge and without calls that could diverge is a certain hang
                rets = any(g.blocks[b]["term"]["t"] == "ret" for b in body)
                if not rets and not calls_in:
                    cx.bad(r6, "%s@bb%d" % (g.id, h), g.where(), "loop without exit edge")
    cx.ok(r6, "census", "", "%d natural loops in statement scope examined, none without an exit" % n_loops)

    # ---- C16.7 (construct shared with C09.4) -------------------------------------------------------------------
    from . import c09
    cx.include(c09, {"C09.4"}, "C16.7", "shared with C09.4: the aborted-bitmap accessors guard their index with a strict bound; an "
               "off-by-one there panics in TransactionCoordinator::abort, i.e. in the error path of every failing statement "
               "(the known finding D19 of C09.4 is about ids beyond the bitmap and is not a panic)", floor=3,
               skip=("drops-large-ids",))

    # ---- C16.9 (construct shared with C07.4) -------------------------------------------------------------------------
    from . import c07
    cx.include(c07, {"C07.4"}, "C16.9", "shared with C07.4: what a failed statement leaves in a unique index is hidden by the snapshot-aware decoder "
               "only; a probe that also consults raw tombstone predicates treats the residue of an aborted writer as a live claim, so "
               "after the error the database no longer behaves as it did before the failing statement", floor=1)

    # ---- C16.10 (construct shared with C01.6) --------------------------------------------------------------------------
    from . import c01
    cx.include(c01, {"C01.6"}, "C16.10", "shared with C01.6: the log append (the step that can reject an oversized record) comes before the B-tree write; "
               "a statement that fails at the append after writing the row leaves that row behind in the session", floor=3)

    # ---- C16.11 (construct shared with C14.5) --------------------------------------------------------------------------
    from . import c14
    cx.include(c14, {"C14.5"}, "C16.11", "shared with C14.5: a statement that panics on a pool worker is reported to its client as an error - the job "
               "sends its result on every path, the worker survives, and the waiting submitter owns no Sender of its own, so the channel "
               "closes and recv fails instead of blocking forever", floor=5)
