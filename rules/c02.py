"""C02 — a crash leaves no trace of unfinished or rolled-back transactions."""
from axvlib import core
from axvlib.core import AnchorMissing, op_local, op_const, enum_switches, dominated, region_calls
from . import common as K

EXPLANATION = (
    "Decides the record-kind tables of the ARIES protocol and the shape of recovery: every RecordType variant is "
    "produced by exactly one Operation impl that production code instantiates and is classified by exactly one "
    "arm of the analysis pass (Begin->undo set, Commit->redo set, Abort->undo set); ROLLBACK appends Abort and never "
    "Commit; writer and reader agree on which header fields and which payload (undo/redo) each kind carries; undo and "
    "redo consult all six operation maps, redo runs before undo and undo walks each chain newest-first; open() "
    "reaches recovery on every success path; abort persists the aborted id; no dirty page is written back before "
    "the log is forced.")
NOT_DECIDED = "correctness of the logical undo/redo operations themselves (data dependent)"
ASSUMPTIONS = []

RT = "storage::wal::RecordType"
OPTRAIT = "io::logger::Operation"
ANALYSIS = K.WAL + "::run_analysis"
RESULT = "io::wal::AnalysisResult"
RECUP = "io::recovery::WalRecuperator"


def op_impls(p):
    """Operation impl type -> RecordType variant its op_type returns"""
    out = {}
    for i in p.trait_impls(OPTRAIT):
        adt = i.get("adt")
        for it in i["items"]:
            if it["name"] == "op_type" and it["id"] in p.fns:
                f = p.fns[it["id"]]
                vs = {s["rv"]["variant"] for _, s in core.region_aggregates(f, range(len(f.blocks)), RT)}
                out[adt] = (sorted(vs), i)
    return out


def returns_some(p, fid):
    """does this Option-returning accessor build Some(..)?"""
    f = p.fns.get(fid)
    if f is None:
        return None
    aggs = core.region_aggregates(f, range(len(f.blocks)), "std::option::Option")
    kinds = {s["rv"]["variant"] for _, s in aggs if s["dst"][0] == 0}
    return "Some" in kinds


def field_of_accessor(p, fid):
    """fields of self a `fn undo(&self) -> &[u8]`-like accessor reads"""
    f = p.fns.get(fid)
    if f is None:
        return set()
    out = set()
    for b in f.blocks:
        for s in b["stmts"]:
            rv = s["rv"]
            pl = rv.get("p") or None
            cands = [pl] if pl else []
            for o in rv.get("o", []) if isinstance(rv.get("o"), list) else []:
                if op_local(o) is not None:
                    cands.append(o.get("c") or o.get("m"))
            for pl in cands:
                if pl and pl[0] == 1:
                    for pe in pl[1:]:
                        if isinstance(pe, str) and pe.startswith("."):
                            out.add(pe[1:].split(":")[0])
    return out


def ctor_param_fields(p, fid):
    """for `fn new(a, b, c) -> Self { Self { x: a, .. } }`: param index -> field name"""
    f = p.fn(fid)
    out = {}
    for b in f.blocks:
        for s in b["stmts"]:
            rv = s["rv"]
            if rv.get("r") == "agg" and rv.get("akind") == "adt" and s["dst"][0] == 0:
                for name, o in zip(rv["fields"], rv["o"]):
                    l = op_local(o)
                    if l is None:
                        continue
                    for a in range(1, f.nargs + 1):
                        if l == a or a in f.dep_closure(l):
                            out[a - 1] = name
    return out


def check(cx):
    p = cx.p
    variants = [v["name"] for v in p.enum_variants(RT)]
    impls = op_impls(p)
    inst = K.operation_instantiations(p)
    inst_types = {}
    for c, g in inst:
        inst_types.setdefault(g, []).append(c)

    # ---- C02.1 record kinds ---------------------------------------------------------
    r1 = cx.rule("C02.1", "TAB: every RecordType variant is produced by exactly one Operation impl that production "
                 "code instantiates (push_to_log/log_operation::<T>) and is handled by its own arm of run_analysis",
                 floor=10)
    fa = p.fn(ANALYSIS)
    sw = [x for x in enum_switches(p, fa) if x[1] == RT]
    arms = sw[0][2] if sw else {}
    arm_blocks = {}
    for v in variants:
        producers = [adt for adt, (vs, _) in impls.items() if v in vs]
        live = [a for a in producers if a in inst_types]
        ok = len(producers) == 1 and len(live) == 1 and v in arms
        detail = "producer %s, instantiated at %d site(s), analysis arm bb%s" % (
            producers, sum(len(inst_types.get(a, [])) for a in producers), arms.get(v))
        bad = detail
        if producers and not live:
            bad = "record kind %s: its Operation impl %s is never instantiated — no such record is ever written " \
                  "(e.g. ROLLBACK not logged as Abort)" % (v, producers)
        cx.verdict(ok, r1, v + ":produced-and-handled", fa.where(), detail, bad)
    # arms must be distinct targets for the three classification kinds
    tgts = [arms.get(v) for v in ("Begin", "Commit", "Abort", "End")]
    cx.verdict(len(set(tgts)) == 4 and None not in tgts, r1, "classification-arms-distinct", fa.where(),
               "Begin/Commit/Abort/End have separate arms", "Begin/Commit/Abort/End share an arm in run_analysis")

    # rollback entry points append Abort, never Commit
    r1b = cx.rule("C02.1b", "FLOW: the rollback entry points (Session::abort_transaction, Drop for Session) reach an "
                  "append of Abort and no append of Commit; commit entry points append Commit and no Abort", floor=2)
    abort_appenders = set(K.appends_of(p, "Abort"))
    commit_appenders = set(K.appends_of(p, "Commit"))
    for entry in ("tcp::session::Session::abort_transaction", "<tcp::session::Session as std::ops::Drop>::drop"):
        f = cx.guard(r1b, entry, p.fn, entry)
        if not f:
            continue
        stop = set()
        reach = p.reach_forward([entry])
        good = bool(reach & abort_appenders) and not (reach & commit_appenders)
        cx.verdict(good, r1b, entry, f.where(), "reaches %s, no Commit append" % sorted(reach & abort_appenders),
                   "rollback path appends %s" % (sorted(reach & commit_appenders) or "no Abort record"))
    f = cx.guard(r1b, "Session::commit_transaction", p.fn, "tcp::session::Session::commit_transaction")
    if f:
        reach = p.reach_forward([f.id])
        cx.verdict(bool(reach & commit_appenders) and not (reach & abort_appenders), r1b, f.id, f.where(),
                   "commit path appends Commit only", "commit path appends Abort or no Commit")
    # abort protocol in Session::abort_transaction: ABORT append -> coordinator abort -> force
    f = p.fns.get("tcp::session::Session::abort_transaction")
    if f:
        la = [c for c in f.calls() if c.callee in abort_appenders]
        ab = [c for c in f.calls() if c.callee == K.ABORT_TX]
        good = bool(la) and bool(ab) and all(any(f.dominates(l.bb, a.bb) for l in la) for a in ab)
        cx.verdict(good, r1b, "abort-logged-before-state-change", f.where(),
                   "the ABORT append dominates the coordinator abort",
                   "the transaction is aborted in memory without an ABORT record being appended first")

    # ---- C02.2 classification -----------------------------------------------------------
    r2 = cx.rule("C02.2", "TAB: run_analysis classifies Begin -> needs_undo.insert; Commit -> needs_undo.remove + "
                 "needs_redo.insert; Abort -> needs_redo.remove + needs_undo.insert; every record joins its transaction's LSN chain "
                 "unconditionally", floor=4)

    def set_ops(blocks):
        """(method, field) pairs of BTreeSet insert/remove on fields of the AnalysisResult"""
        out = set()
        for c in region_calls(fa, blocks):
            m = c.callee.rsplit("::", 1)[-1]
            if "BTreeSet" in c.callee and m in ("insert", "remove"):
                l = op_local(c.args[0])
                # which field does the &mut come from
                for b in fa.blocks:
                    for s in b["stmts"]:
                        if s["dst"] == [l] and s["rv"].get("r") == "ref":
                            for pe in s["rv"]["p"][1:]:
                                if isinstance(pe, str) and pe.endswith(":" + RESULT):
                                    out.add((m, pe[1:].split(":")[0]))
        return out

    want = {"Begin": {("insert", "needs_undo")},
            "Commit": {("remove", "needs_undo"), ("insert", "needs_redo")},
            "Abort": {("remove", "needs_redo"), ("insert", "needs_undo")},
            "End": set()}
    for v, w in want.items():
        if v not in arms:
            cx.bad(r2, v, fa.where(), "no arm for %s" % v)
            continue
        region = dominated(fa, arms[v])
        got = set_ops(region)
        # each classification step is unconditional: no way through the arm bypasses it
        cond = []
        for c in region_calls(fa, region):
            m = c.callee.rsplit("::", 1)[-1]
            if "BTreeSet" in c.callee and m in ("insert", "remove"):
                exits = [b for b in fa.reachable(arms[v], blocked={c.bb}) if b not in region]
                if exits:
                    cond.append(m)
        cx.verdict(got == w and not cond, r2, v, fa.where(), "arm does %s, unconditionally" % sorted(got),
                   "arm of %s does %s%s, expected %s unconditionally: e.g. a COMMIT whose BEGIN was truncated away by a "
                   "checkpoint is then not redone" % (v, sorted(got), (" (conditional: %s)" % cond) if cond else "", sorted(w)))

    # every record of a transaction joins that transaction's LSN chain, whatever its kind and whether or not the BEGIN
    # is still in the log (a checkpoint inside a transaction truncates the BEGIN away; redo/undo treat a missing chain as
    # a hard error)
    from axvlib.core import natural_loops
    chain_push = [c for c in fa.calls() if c.callee.endswith("Vec::<T, A>::push") and any("u64" in a for a in c.gargs)]
    lp = [(h, body) for h, body in natural_loops(fa) if any(c.bb in body for c in chain_push)]
    if not chain_push or not lp:
        cx.bad(r2, "lsn-chain-unconditional", fa.where(), "run_analysis does not push record LSNs onto per-transaction chains inside its record loop")
    else:
        h, body = max(lp, key=lambda x: len(x[1]))
        kill = {c.bb for c in chain_push}
        # entry of one iteration: successors of the header inside the body
        free = False
        seen_b, work = set(), [x for x in fa.succ(h) if x in body]
        while work:
            u = work.pop()
            if u in seen_b or u in kill or u not in body or fa.blocks[u]["cleanup"]:
                continue
            seen_b.add(u)
            for v in fa.succ(u):
                if v == h:
                    # `continue` before the record was decoded (e.g. skipping padding) does not count: require that a
                    # record was read on this path
                    free = True
                else:
                    work.append(v)
        # paths that leave the iteration before a record exists (iterator exhausted / decode error) are not in `body` back edges
        first_rec = [c for c in fa.calls() if c.bb in body and (c.callee.endswith("::lsn") or c.callee.endswith("::log_type") or c.callee.endswith("::tid"))]
        if free and first_rec:
            # only paths that passed the record accessors matter
            rb = min(c.bb for c in first_rec)
            free = False
            seen_b, work = set(), [rb]
            while work:
                u = work.pop()
                if u in seen_b or u in kill or u not in body or fa.blocks[u]["cleanup"]:
                    continue
                seen_b.add(u)
                for v in fa.succ(u):
                    if v == h:
                        free = True
                    else:
                        work.append(v)
        cx.verdict(not free, r2, "lsn-chain-unconditional", chain_push[0].where(), "every record is added to its transaction's chain",
                   "run_analysis can finish a record without adding its LSN to the transaction's chain (the push is conditional, e.g. on a "
                   "BEGIN having been seen): a transaction whose BEGIN was cut off by a checkpoint is classified but has no chain, "
                   "and open() fails or skips its committed work")

    # ---- C02.3 payload shape -----------------------------------------------------------
    r3 = cx.rule("C02.3", "TAB/FLOW: for each data record kind, Operation::{object_id,row_id} return Some exactly when "
                 "the analysis arm expects the field, and the arm passes the undo/redo payload to the constructor "
                 "parameter that Operation::{undo,redo} reads back", floor=6)
    kind_of = {"Insert": "io::logger::Insert", "Delete": "io::logger::Delete", "Update": "io::logger::Update",
               "Create": "io::logger::Create", "Alter": "io::logger::Alter", "Drop": "io::logger::DropOp"}
    for v, adt in kind_of.items():
        if v not in arms:
            cx.bad(r3, v, fa.where(), "no analysis arm")
            continue
        region = dominated(fa, arms[v])
        calls = region_calls(fa, region)
        # which metadata fields does the arm expect()
        expected = set()
        for c in calls:
            if c.callee.endswith("Option::<T>::expect"):
                l = op_local(c.args[0])
                for b in fa.blocks:
                    for s in b["stmts"]:
                        if s["dst"] == [l]:
                            for o in s["rv"].get("o", []):
                                pl = o.get("c") or o.get("m") or []
                                for pe in pl[1:]:
                                    if isinstance(pe, str) and pe.startswith(".") and "RecordHeader" in pe:
                                        expected.add(pe[1:].split(":")[0])
        imp = impls.get(adt)
        if not imp:
            cx.bad(r3, v, fa.where(), "no Operation impl for %s" % adt)
            continue
        items = {it["name"]: it["id"] for it in imp[1]["items"]}
        provides = set()
        for fld in ("object_id", "row_id"):
            if fld in items and returns_some(p, items[fld]):
                provides.add(fld)
        ok = expected == provides
        cx.verdict(ok, r3, v + ":header-fields", fa.where(),
                   "writer provides %s, reader expects %s" % (sorted(provides), sorted(expected)),
                   "writer provides %s but the analysis arm expects %s: recovery would panic or lose the id" % (
                       sorted(provides), sorted(expected)))
        # payload routing
        ctor = [c for c in calls if c.callee == adt + "::new"]
        if not ctor:
            cx.bad(r3, v + ":ctor", fa.where(), "arm does not build %s" % adt)
            continue
        c = ctor[0]
        pf = ctor_param_fields(p, adt + "::new")
        for pay in ("undo", "redo"):
            src_calls = [x for x in calls if x.callee.endswith("::%s_payload" % pay)]
            reads = field_of_accessor(p, items.get(pay)) if pay in items else set()
            if not src_calls and not reads:
                cx.ok(r3, "%s:%s" % (v, pay), fa.where(), "kind carries no %s payload on either side" % pay)
                continue
            if bool(src_calls) != bool(reads):
                cx.bad(r3, "%s:%s" % (v, pay), fa.where(),
                       "%s payload: writer reads fields %s, reader extracts %d payload(s)" % (pay, sorted(reads), len(src_calls)))
                continue
            src_locals = {op_local(x.dst and {"c": x.dst}) for x in src_calls}
            routed = set()
            for idx, o in enumerate(c.args):
                l = op_local(o)
                if l is not None and (fa.dep_closure(l) & src_locals):
                    routed.add(pf.get(idx))
            cx.verdict(routed == reads and None not in routed, r3, "%s:%s" % (v, pay), c.where(),
                       "%s payload -> constructor field %s = field read by Operation::%s" % (pay, sorted(routed), pay),
                       "%s payload is stored in field(s) %s but Operation::%s reads %s (undo/redo swapped)" % (
                           pay, sorted(x or "?" for x in routed), pay, sorted(reads)))

    # ---- C02.4 siblings: undo and redo ---------------------------------------------------
    r4 = cx.rule("C02.4", "SIB/MPR: run_undo and run_redo each consult all six operation maps; run_recovery runs redo "
                 "then undo; undo walks each chain in reverse (Rev iterator), redo forward; Database::open reaches "
                 "recovery on every success path", floor=6)
    maps = {"insert_ops", "delete_ops", "update_ops", "create_ops", "alter_ops", "drop_ops"}
    for name in ("run_undo", "run_redo"):
        f = cx.guard(r4, name, p.fn, RECUP + "::" + name)
        if not f:
            continue
        seen = set()
        # the loop body may be a closure of `try_for_each` and/or a helper (`undo_at(lsn)`): the whole family is the loop
        fam4 = K.family(p, f)
        if p.inline_mode:
            fam4 = fam4 + [m_ for h_ in [p.fns.view(x) for x in p.reach_forward([f.id]) if x in p.raw_fns and p.raw_fns[x].impl_adt == RECUP
                                       and x != f.id and p.transparent(x)] for m_ in K.family(p, h_)]
        for g4 in fam4:
            for b in g4.blocks:
                for s in b["stmts"]:
                    pls = [s["rv"].get("p") or []] + [(o.get("c") or o.get("m") or []) for o in (s["rv"].get("o") or []) if isinstance(s["rv"].get("o"), list) and isinstance(o, dict)]
                    for pl in pls:
                        for pe in pl[1:]:
                            if isinstance(pe, str) and pe.endswith(":" + RESULT):
                                seen.add(pe[1:].split(":")[0])
        cx.verdict(maps <= seen, r4, name + ":maps", f.where(), "consults %s" % sorted(seen & maps),
                   "%s ignores %s" % (name, sorted(maps - seen)))
        # each map hit leads to the matching handler
        handlers = {c.callee.rsplit("::", 1)[-1] for g4 in fam4 for c in g4.calls() if c.callee.startswith(RECUP + "::")}
        pre = name.split("_")[1]
        want_h = {"%s_%s" % (pre, k) for k in ("insert", "delete", "update", "create", "alter", "drop")}
        cx.verdict(want_h <= handlers, r4, name + ":handlers", f.where(), "calls %s" % sorted(handlers),
                   "%s does not call %s" % (name, sorted(want_h - handlers)))
        nexts = [c for c in f.calls() if c.callee.endswith("Iterator>::next") or c.callee.endswith("::next")]
        rev = [c for c in nexts if any("std::iter::Rev<" in g and "u64" in g for g in c.rgargs + c.gargs) or
               ("Rev<" in c.callee)]
        revcalls = [c for c in f.calls() if c.callee.endswith("Iterator::rev")]
        if name == "run_undo":
            cx.verdict(bool(revcalls), r4, "run_undo:newest-first", f.where(),
                       "the LSN chain is walked through Iterator::rev",
                       "run_undo walks a transaction's operations oldest-first: two updates of one row restore "
                       "the intermediate value")
        else:
            cx.verdict(not revcalls, r4, "run_redo:oldest-first", f.where(), "redo walks the chain forward",
                       "run_redo walks the chain in reverse")
    f = cx.guard(r4, "run_recovery", p.fn, RECUP + "::run_recovery")
    if f:
        redo = [c for c in f.calls() if c.callee == RECUP + "::run_redo"]
        undo = [c for c in f.calls() if c.callee == RECUP + "::run_undo"]
        good = bool(redo) and bool(undo) and all(any(f.dominates(r.bb, u.bb) for r in redo) for u in undo)
        cx.verdict(good, r4, "redo-before-undo", f.where(), "run_redo dominates run_undo",
                   "undo runs before (or without) redo: undoing work on objects that exist only in the log fails")
        cx.verdict(p.all_success_paths_call(f, {RECUP + "::run_undo"}, 0) and
                   p.all_success_paths_call(f, {RECUP + "::run_redo"}, 0), r4, "both-passes", f.where(),
                   "every success path runs both passes", "a success path of run_recovery skips a pass")
    fo = cx.guard(r4, "Database::open", p.fn, "Database::open")
    if fo:
        T = p.must_reach_set({RECUP + "::run_recovery"})
        cx.verdict(p.all_success_paths_call(fo, T, 0), r4, "open-runs-recovery", fo.where(),
                   "every success path of Database::open runs recovery",
                   "Database::open can succeed without running recovery")
        # ... and the analysis result fed to recovery comes from run_analysis in the same closure
        fr = p.fns.get("Database::run_recovery::{closure#0}")
        if fr:
            an = [c for c in fr.calls() if p.reaches(c.callee, ANALYSIS) or c.callee == K.PAGER + "::run_analysis"]
            rc = [c for c in fr.calls() if c.callee == RECUP + "::run_recovery"]
            good = bool(an) and bool(rc) and all(any(fr.dominates(a.bb, r.bb) for a in an) for r in rc)
            cx.verdict(good, r4, "analysis-before-recovery", fr.where(), "analysis dominates redo/undo",
                       "recovery runs without (or before) the analysis pass")

    # ---- C02.5 write-ahead at page write-back ---------------------------------------------
    r5 = cx.rule("C02.5", "MPR: every write of a data page to the database file (Pager::write_block outside page-zero "
                 "bootstrap) is dominated by a log force in its function or in every caller", floor=5)
    force = K.log_force_fns(p) | {K.PAGER + "::flush_wal"}
    forceT = p.must_reach_set(force)
    wb = K.PAGER + "::write_block"
    sites = K.sites(p, wb)
    BOOT = {K.PAGER + "::alloc_page_zero": "writes the initial header of a database being created; no log exists yet"}

    def forced_before(f, bb, depth=0):
        """is block bb of f dominated by a log force, here or in every caller?"""
        for c in f.calls():
            if c.bb != bb and f.dominates(c.bb, bb) and c.callee in forceT:
                return True
        # closures run inside their parent's call: look at the site that passes the closure
        if depth > 3:
            return False
        callers = []
        for g in p.fns.values():
            for c in g.calls():
                if f.id in p.targets(c):
                    callers.append((g, c.bb))
        if not callers:
            return False
        return all(forced_before(g, b, depth + 1) for g, b in callers)

    ADVISORY_WB = {
        K.PAGER + "::cache_frame": "D5: an evicted dirty page is written without forcing the log first. On the repaired "
                                   "tree no failing crash history could be exhibited (triage d5/d5b/d5c: uncommitted rows "
                                   "stay invisible after reopen), so this site is reported as advisory, not as a verdict",
        K.PAGER + "::dealloc_page": "D5 (second site): same shape as cache_frame; advisory for the same reason",
    }
    for c in sites:
        f = c.fn
        root = f.root or f.id
        if root in BOOT:
            cx.ok(r5, root, c.where(), "allow-listed: " + BOOT[root])
            continue
        good = forced_before(f, c.bb)
        if not good and root in ADVISORY_WB:
            cx.advisory(r5, f.id, c.where(), ADVISORY_WB[root])
            continue
        cx.verdict(good, r5, f.id, c.where(), "write-back is preceded by a log force",
                   "a (possibly dirty, uncommitted) page is written to the data file without forcing the log first: "
                   "after a crash the page holds changes the log knows nothing about (D5)")

    # ---- C02.7 abort persists ------------------------------------------------------------
    r7 = cx.rule("C02.7", "MPT/FLOW: TransactionCoordinator::abort stores Aborted in the table entry and reaches "
                 "PageZeroHeader::mark_transaction_aborted on every success path", floor=2)
    f = cx.guard(r7, "abort", p.fn, K.COORD + "::abort")
    if f:
        T = p.must_reach_set({"storage::page::PageZeroHeader::mark_transaction_aborted"})
        cx.verdict(p.all_success_paths_call(f, T, 0), r7, "persist", f.where(),
                   "abort persists the id in page zero", "abort no longer persists the aborted id")
        st = [s for g in K.family(p, f) for _, s in core.region_aggregates(g, range(len(g.blocks)), "multithreading::coordinator::TransactionState")
              if s["rv"]["variant"] == "Aborted"]
        cx.verdict(bool(st), r7, "state", f.where(), "entry.state = Aborted", "abort does not store Aborted")

    # ---- C02.6 advisory: COMMIT record appended before validation ----------------------------
    r6 = cx.rule("C02.6", "advisory (D22): the COMMIT record is appended before commit_transaction() validates; a "
                 "validation failure would leave a COMMIT without ABORT in the log")
    rw = K.callers_of(p, K.COORD + "::record_write")
    if rw:
        cx.advisory(r6, "armed", "", "record_write has callers %s: validation can now fail after the COMMIT append" % rw)
    else:
        cx.advisory(r6, "dormant", "", "record_write has no production caller, validation cannot fail (D4)")

    # ---- C02.8 (construct shared with C08.1) ---------------------------------------------------------------------
    from . import c08
    cx.include(c08, {"C08.1"}, "C02.8", "shared with C08.1: recovery commits and then discards the log by a checkpoint; a log that "
               "survives recovery is analysed again after the next crash, and because transaction ids handed out since the last "
               "checkpoint are handed out again, a new committed transaction then lends its COMMIT to an old loser's operations",
               floor=5)

    # ---- C02.10 recovery's re-insert removes a loser's deletion mark whatever the loser's status ------------------------------
    r10 = cx.rule("C02.10", "FLOW: recovery undoes a loser's DELETE by re-inserting the before-image through DmlExecutor::insert; in its "
                  "`row id already present` branch the overwrite of the stored tuple is decided by the raw deletion mark "
                  "(Tuple::is_deleted) alone and by no snapshot status query - the loser is neither committed nor known aborted "
                  "to the recovery snapshot, so a visibility-based test leaves its mark in place", floor=2)
    fi = cx.guard(r10, "insert", p.fn, "runtime::dml::DmlExecutor::insert")
    ud = cx.guard(r10, "undo_delete", p.fn, "io::recovery::WalRecuperator::undo_delete")
    if fi and ud:
        cx.verdict(p.reaches(ud.id, fi.id), r10, "undo_delete-reinserts", ud.where(), "undo_delete reaches DmlExecutor::insert",
                   "undo_delete no longer re-inserts through DmlExecutor::insert (re-derive this rule)")
        # the branch may sit in insert itself or in a helper of the executor that insert calls
        fam = [fi] + [p.fns[x] for x in sorted(p.reach_forward([fi.id])) if x in p.fns and x != fi.id and p.fns[x].impl_adt == "runtime::dml::DmlExecutor"
                      and p.fns[x].name not in ("maintain_secondary_indexes", "update", "delete")]
        holder = [g for g in fam if any(c.callee.endswith("Btree::<Acc>::update") for c in g.calls())]
        fi = holder[0] if holder else fi
        ups = [c for c in fi.calls() if c.callee.endswith("Btree::<Acc>::update")]
        marks = [c for c in fi.calls() if c.callee == "storage::tuple::Tuple::is_deleted"]
        status = {"multithreading::coordinator::Snapshot::is_committed_before_snapshot", "multithreading::coordinator::Snapshot::is_transaction_aborted",
                  "multithreading::coordinator::Snapshot::is_visible"}
        good = bool(ups) and bool(marks)
        why = ""
        for u in ups:
            decided_by_mark = False
            for bi, b in enumerate(fi.blocks):
                t = b["term"]
                if t["t"] != "switch" or not fi.dominates(bi, u.bb) or bi == u.bb:
                    continue
                arms = [x[1] for x in t["targets"]] + [t["otherwise"]]
                if all(u.bb in fi.reachable(a, blocked={bi}) for a in arms):
                    continue          # not a deciding branch
                l = op_local(t["o"])
                cl = fi.dep_closure(l) | {l}
                if any(m_.dst and m_.dst[0] in cl for m_ in marks):
                    decided_by_mark = True
                # a status query (directly or in a closure handed to an Option adaptor) feeding this branch
                for c in fi.calls():
                    if not (c.dst and c.dst[0] in cl):
                        continue
                    tg = set(p.targets(c)) | {c.callee}
                    for t_ in list(tg):
                        g_ = p.fns.get(t_)
                        if g_ is not None and g_.kind == "closure":
                            tg |= {cc.callee for cc in g_.calls()}
                    if tg & status:
                        good = False
                        why = "a snapshot status query (%s) decides the overwrite" % sorted(x.rsplit("::", 1)[-1] for x in tg & status)
            good = good and decided_by_mark
            if not decided_by_mark and not why:
                why = "the overwrite is not decided by Tuple::is_deleted"
        cx.verdict(good, r10, "overwrite-decided-by-raw-mark", fi.where(), "update of the stored tuple is decided by is_deleted()",
                   "in DmlExecutor::insert %s: recovery's undo of an uncommitted DELETE then leaves the deletion mark, and the "
                   "rolled-back DELETE becomes permanent after the crash" % (why or "there is no overwrite of an existing deleted row"))

    # ---- C02.11 (construct shared with C01.1) -------------------------------------------------------------------------
    from . import c01
    cx.include(c01, {"C01.1"}, "C02.11", "shared with C01.1: every statement that ends a transaction forces the log before it returns. The pager "
               "writes dirty pages back without forcing the log first (advisory C02.5), so this per-statement force is what keeps an "
               "open transaction's records ahead of its pages; a statement kind that skips it lets a crash keep uncommitted rows with "
               "nothing in the log to undo them", floor=7)

    # ---- C02.12 (construct shared with C09.4) ---------------------------------------------------------------------------
    from . import c09
    cx.include(c09, {"C09.4"}, "C02.12", "shared with C09.4: a rolled-back transaction whose tuples reached the data file is hidden after a restart "
               "only by the persisted aborted bitmap, which must be loaded with the layout it was written with", floor=4, skip=("drops-large-ids",))
