"""C08 — the database always reopens after a crash, and recovery can be repeated (partly claimed)."""
from axvlib import core
from axvlib.core import AnchorMissing, op_local, op_const, enum_switches, dominated
from . import common as K

EXPLANATION = (
    "Decides the shape of the open/recovery protocol: open() always runs recovery; inside it analysis precedes "
    "redo/undo, redo precedes undo, undo walks chains newest-first, the recovery transaction commits and only then a "
    "checkpoint discards the log, and an error of the recuperator never reaches the truncation; recovery decodes log "
    "images raw (never through a snapshot); every DROP instruction recovery builds is if_exists (repeatable), DML undo "
    "is skipped for tables that never reached disk; a log shorter than its header opens as empty; create() and open() "
    "assign the two catalog roots in the same order; the panic sites on log-derived values are the justified ones.")
NOT_DECIDED = "convergence/idempotence of repeated recovery for every crash point (data dependent)"
ASSUMPTIONS = ["a log block is written whole (the property's crash model); torn blocks are out of scope"]

RECUP = "io::recovery::WalRecuperator"
REC_CLOSURE = "Database::run_recovery::{closure#0}"


def check(cx):
    p = cx.p
    # ---- C08.1 open protocol -----------------------------------------------------------------
    r1 = cx.rule("C08.1", "MPT/MPR: Database::open reaches recovery on every success path; inside: run_analysis < "
                 "run_recovery < commit_transaction < checkpoint (Pager::flush); the checkpoint is not reachable from "
                 "an error outcome of the recuperator", floor=4)
    fo = cx.guard(r1, "open", p.fn, "Database::open")
    if fo:
        T = p.must_reach_set({RECUP + "::run_recovery"})
        cx.verdict(p.all_success_paths_call(fo, T, 0), r1, "open-runs-recovery", fo.where(),
                   "every success path of open runs recovery", "Database::open can succeed without running recovery")
    fr = cx.guard(r1, REC_CLOSURE, p.fn, REC_CLOSURE)
    if fr:
        def calls_to(pred):
            return [c for c in fr.calls() if pred(c.callee)]
        an = calls_to(lambda x: x == K.PAGER + "::run_analysis")
        rc = calls_to(lambda x: x == RECUP + "::run_recovery")
        cm = calls_to(lambda x: x == K.COMMIT_TX)
        ck = calls_to(lambda x: x == K.PAGER_FLUSH or x == K.PAGER + "::truncate_wal")
        chain = [("analysis", an), ("recovery", rc), ("commit", cm), ("checkpoint", ck)]
        for (n1, a), (n2, b) in zip(chain, chain[1:]):
            good = bool(a) and bool(b) and all(any(fr.dominates(x.bb, y.bb) for x in a) for y in b)
            cx.verdict(good, r1, "%s<%s" % (n1, n2), fr.where(), "%s dominates %s" % (n1, n2),
                       "%s does not dominate %s in the recovery closure" % (n1, n2))
        errs = fr.err_blocks()
        from_err = fr.reachable(list(errs)) if errs else set()
        cx.verdict(bool(ck) and not any(c.bb in from_err for c in ck), r1, "no-checkpoint-after-error", fr.where(),
                   "the log is discarded only on the success continuation",
                   "the checkpoint/truncation is reachable from an error outcome: a failed recovery would discard the log")
        pure_trunc = [c for c in ck if c.callee == K.PAGER + "::truncate_wal"]
        cx.verdict(not pure_trunc, r1, "no-bare-truncation", fr.where(), "log discarded by a checkpoint",
                   "recovery truncates the log without writing the recovered pages back (D26)")

    # ---- C08.2 panic surface on log-derived values ----------------------------------------------
    r2 = cx.rule("C08.2", "PANIC: the expect/unwrap/panic sites in run_analysis and WalRecuperator are exactly the ones "
                 "justified by the writer/reader agreement of C02.3 (object_id/row_id present for the kinds that carry "
                 "them); any further panic on a value read from the log is reported", floor=9)
    fns = [f.id for f in p.fns.values() if f.impl_adt == RECUP] + [K.WAL + "::run_analysis", REC_CLOSURE,
                                                                  "Database::run_recovery"]
    budget = {
        (K.WAL + "::run_analysis", "Option::expect"): 9,
        (RECUP + "::redo_delete", "Option::expect"): 2, (RECUP + "::redo_drop", "Option::expect"): 1,
        (RECUP + "::redo_insert", "Option::expect"): 1, (RECUP + "::redo_update", "Option::expect"): 2,
        (RECUP + "::undo_create", "Option::expect"): 1, (RECUP + "::undo_delete", "Option::expect"): 1,
        (RECUP + "::undo_insert", "Option::expect"): 2, (RECUP + "::undo_update", "Option::expect"): 2,
    }
    K.check_panic_budget(cx, r2, p, fns, budget, "object_id/row_id of a record kind whose writer always sets it (C02.3)")

    # ---- C08.4 order of passes --------------------------------------------------------------------
    r4 = cx.rule("C08.4", "MPR: run_recovery repeats history (run_redo) before it undoes losers (run_undo), and undo "
                 "walks each chain newest-first", floor=2)
    f = cx.guard(r4, "run_recovery", p.fn, RECUP + "::run_recovery")
    if f:
        redo = [c for c in f.calls() if c.callee == RECUP + "::run_redo"]
        undo = [c for c in f.calls() if c.callee == RECUP + "::run_undo"]
        good = bool(redo) and bool(undo) and all(any(f.dominates(r.bb, u.bb) for r in redo) for u in undo)
        cx.verdict(good, r4, "redo-before-undo", f.where(), "run_redo dominates run_undo",
                   "undo runs before (or without) redo: open() fails for a loser on an object that exists only in the log (D18)")
    fu = cx.guard(r4, "run_undo", p.fn, RECUP + "::run_undo")
    if fu:
        cx.verdict(any(c.callee.endswith("Iterator::rev") for c in fu.calls()), r4, "undo-newest-first", fu.where(),
                   "chain walked through Iterator::rev", "run_undo walks a loser's operations oldest-first (D27)")

    # ---- C08.5 repeatable DDL recovery, tolerant DML undo ----------------------------------------------
    r5 = cx.rule("C08.5", "FLOW: every DropTableInstr/DropIndexInstr built by recovery has if_exists = true (never the "
                 "statement-level inverse()) and every replayed DROP TABLE cascades to the table's indexes; the DML undo "
                 "handlers return early when the table does not exist", floor=4 + 3 + 2)
    for name in ("undo_create", "redo_drop"):
        f = cx.guard(r5, name, p.fn, RECUP + "::" + name)
        if not f:
            continue
        inv = [c for c in f.calls() if c.callee.endswith("Instr::inverse")]
        news = [c for c in f.calls() if c.callee in ("runtime::ddl::DropTableInstr::new", "runtime::ddl::DropIndexInstr::new")]
        if not news:
            # built by a helper of this file that the handler reaches through a closure / combinator (`.map(|o| o.into_drop(id))`)
            others_ = {RECUP + "::" + n_ for n_ in ("redo_create", "undo_create", "redo_drop", "undo_drop", "redo_alter", "undo_alter")} - {f.id}
            for x in sorted(p.reach_forward([f.id], stop=others_)):
                h_ = p.raw_fns.get(x)
                if h_ is not None and x != f.id and h_.file == f.file:
                    inv += [c for c in h_.calls() if c.callee.endswith("Instr::inverse")]
                    news += [c for c in h_.calls() if c.callee in ("runtime::ddl::DropTableInstr::new", "runtime::ddl::DropIndexInstr::new")]
        cx.verdict(not inv, r5, name + ":no-inverse", f.where(), "no statement-level inverse()",
                   "%s builds its DROP with inverse() (if_exists = false): redoing/undoing on an object that is "
                   "already gone makes Database::open fail" % name)
        for i, c in enumerate(news):
            k = op_const(c.args[-1])
            cx.verdict(k is not None and k.get("v") == 1, r5, "%s:if_exists#%d" % (name, i), c.where(),
                       "if_exists = true", "%s builds a DROP instruction whose if_exists is not the constant true" % name)
            if c.callee.endswith("DropTableInstr::new"):
                # the log record of a DROP carries the CREATE image only, not the statement's CASCADE flag: a table
                # that owned indexes can only have been dropped with CASCADE, so replay must drop them too
                k = op_const(c.args[2]) if len(c.args) == 4 else None
                cx.verdict(k is not None and k.get("v") == 1, r5, "%s:cascade#%d" % (name, i), c.where(), "cascade = true",
                           "%s replays a DROP TABLE without cascade: the table's indexes stay in the catalog as orphans "
                           "(their names stay taken; replaying a later CREATE of the same name makes open() fail)" % name)
        if not news:
            cx.bad(r5, name + ":no-drop-built", f.where(), "%s builds no DROP instruction" % name)
    te = RECUP + "::table_exists"
    for name in ("undo_insert", "undo_update", "undo_delete"):
        f = cx.guard(r5, name, p.fn, RECUP + "::" + name)
        if not f:
            continue
        guards = [c for c in f.calls() if c.callee == te]
        work = [c for c in f.calls() if c.callee.startswith("runtime::dml::DmlExecutor::") and
                c.callee.rsplit("::", 1)[-1] in ("insert", "update_row", "delete", "update")]
        good = bool(guards) and bool(work) and all(any(f.dominates(g.bb, w.bb) for g in guards) for w in work)
        if not good and guards and work:
            # the guard may sit behind a flag that is constant on this entry (`if pass == Undo && !table_exists(..)` in a body shared
            # with redo): no path that known constants leave feasible reaches the inverse operation without the guard
            from axvlib import absint
            try:
                ps_ = absint.PathSearch(p, f)
                good = all(ps_.find_path(0, {w.bb}, kill={g.bb for g in guards}) is None for w in work)
            except absint.TooManyStates:
                pass
        cx.verdict(good, r5, name + ":guarded", f.where(), "table_exists dominates the inverse operation",
                   "%s applies its inverse operation without asking whether the table exists: an open transaction "
                   "on a table whose CREATE never reached disk makes open() fail (D29)" % name)

    # ---- C08.6 short log ------------------------------------------------------------------------------
    r6 = cx.rule("C08.6", "MPR: in WriteAheadLog::open the read of block zero is dominated by a test of the file "
                 "length (a log cut to zero length by a crash inside a checkpoint opens as empty) and every success path leaves "
                 "block zero on disk (read or freshly written)", floor=2)
    f = cx.guard(r6, "wal-open", p.method, K.WAL, "open", "io::disk::FileOperations")
    if f:
        reads = [c for c in f.calls() if c.callee.endswith("::read_exact")]
        good = bool(reads)
        for rd in reads:
            ok1 = False
            for bi, b in enumerate(f.blocks):
                t = b["term"]
                if t["t"] == "switch" and f.dominates(bi, rd.bb) and bi != rd.bb:
                    l = op_local(t["o"])
                    cl = f.dep_closure(l) if l is not None else set()
                    seeks = [c for c in f.calls() if c.callee.endswith("Seek>::seek") and op_local({"c": c.dst}) in cl]
                    cmps = [s for bb in f.blocks for s in bb["stmts"] if s["dst"][0] in cl and s["rv"].get("r") == "bin"
                            and s["rv"]["op"] in ("Lt", "Le", "Gt", "Ge", "Eq")]
                    if seeks and cmps:
                        ok1 = True
            good = good and ok1
        cx.verdict(good, r6, "length-test", f.where(), "block-zero read guarded by a file-length comparison",
                   "WriteAheadLog::open reads block zero unconditionally: a 0-byte log left by a crash between the "
                   "truncation and the header rewrite of a checkpoint makes open() fail (D30)")

        # whichever branch is taken, block zero exists on disk when open() returns: it was read, or it is written now
        # (the analysis pass of recovery reads it back from the file)
        wh = cx.guard(r6, "write_header", p.method, K.WAL, "write_header")
        if wh and reads:
            T = p.must_reach_set({wh.id}) | {rd.callee for rd in reads}
            cx.verdict(p.all_success_paths_call(f, T, 0), r6, "block-zero-on-disk", f.where(),
                       "every success path reads block zero or writes a fresh one",
                       "WriteAheadLog::open can return a log whose block zero was neither read from nor written to the file: "
                       "the file stays shorter than a block and recovery's analysis pass fails to read it (open() errors "
                       "although the data file is intact)")

    # ---- C08.7 catalog roots ---------------------------------------------------------------------------
    r7 = cx.rule("C08.7", "SIB: Database::create and Database::open hand their first page allocation to Catalog::new as "
                 "meta_table and the second as meta_index (the constants (1,2) used by every later open rely on it)",
                 floor=2)
    for name in ("create", "open"):
        f = cx.guard(r7, name, p.fn, "Database::" + name)
        if not f:
            continue
        allocs = [c for c in f.calls() if c.callee.endswith("Pager::allocate_page")]
        cat = [c for c in f.calls() if c.callee == "schema::catalog::Catalog::new"]
        good = len(allocs) == 2 and len(cat) == 1
        why = "%d allocations, %d Catalog::new" % (len(allocs), len(cat))
        if good:
            a, b = allocs
            if f.dominates(b.bb, a.bb):
                a, b = b, a
            c = cat[0]
            # component-wise provenance: (first, second) may travel through a tuple, a Result and `?`
            o1 = f.origins_precise(op_local(c.args[1]))
            o2 = f.origins_precise(op_local(c.args[2]))
            good = f.dominates(a.bb, b.bb) and ("call", a.bb) in o1 and ("call", b.bb) in o2 and \
                ("call", b.bb) not in o1 and ("call", a.bb) not in o2 and \
                all(k == "const" for k, _ in (o1 | o2) - {("call", a.bb), ("call", b.bb)}) and \
                {v for k, v in o1 if k == "const"} <= {1} and {v for k, v in o2 if k == "const"} <= {2}
            why = "first allocation -> meta_table, second -> meta_index" if good else \
                "allocation results reach Catalog::new in the wrong order (meta_table from %s, meta_index from %s)" % (sorted(map(str, o1)), sorted(map(str, o2)))
        cx.verdict(good, r7, name, f.where(), why,
                   "Database::%s: %s — after the first clean reopen the catalog roots are swapped and every table vanishes" % (name, why))

    # ---- C08.8 recovery decodes images raw ----------------------------------------------------------------
    r8 = cx.rule("C08.8", "WMC: WalRecuperator decodes the logged before/after images without a snapshot "
                 "(Row::from_bytes_checked), never through the snapshot-aware decoders", floor=4)
    aware = {"storage::tuple::Row::from_bytes_checked_with_snapshot", "storage::tuple::TupleReader::<'a>::parse_for_snapshot"}
    n = 0
    for f in K.each_fn(p):          # a decode helper (`put_row_image(table, bytes)`) is judged, inlined, in the handlers that call it
        if f.impl_adt != RECUP:
            continue
        for c in f.calls():
            if c.callee in aware:
                cx.bad(r8, f.id, c.where(), "%s decodes a log image through the recovery snapshot: after a checkpoint "
                       "every later image is invisible and its operation is silently skipped (D28)" % f.id)
            if c.callee == "storage::tuple::Row::from_bytes_checked":
                n += 1
                # the bytes come from Operation::undo()/redo()
                src = {x.callee.rsplit("::", 1)[-1] for x in f.calls() if op_local({"c": x.dst}) in f.dep_closure(op_local(c.args[0]))}
                cx.verdict(bool(src & {"undo", "redo"}), r8, "%s#%d" % (f.id, n), c.where(), "decodes Operation::%s()" % sorted(src & {"undo", "redo"}),
                           "the decoded bytes do not come from the log record")

    # ---- C08.13 the DDL handlers decode each payload slot as what the statement put there --------------------------------------
    r13 = cx.rule("C08.13", "SIB/TAB: writer table (log_create/log_drop/log_alter call sites: which instruction type is serialised into "
                  "the undo and into the redo slot of a Create/DropOp/Alter record, slots derived from X::new and the Operation accessors) "
                  "agrees with the reader table (the recovery handlers: which instruction type they decode from which accessor): a "
                  "handler that decodes the other slot finds nothing and silently skips the operation", floor=6)
    LOGOPS = {"log_create": "io::logger::Create", "log_drop": "io::logger::DropOp", "log_alter": "io::logger::Alter"}
    W = {}
    try:
        for lg, rec in LOGOPS.items():
            fl = p.raw_fns.get(K.LOGGER + "::" + lg)
            fnew = p.raw_fns.get(rec + "::new")
            if fl is None or fnew is None:
                raise AnchorMissing("%s / %s::new not found" % (lg, rec))
            # constructor: parameter -> field
            field_of_param = {}
            for b in fnew.blocks:
                for st in b["stmts"]:
                    if st["rv"].get("r") == "agg" and st["rv"].get("adt") == rec:
                        for fld, o in zip(st["rv"]["fields"], st["rv"]["o"]):
                            l = op_local(o)
                            for k_, x in (fnew.nearest_calls(l) if l is not None else ()):
                                if k_ == "param":
                                    field_of_param[x] = fld
            # accessors: slot -> field
            slot_of_field = {}
            for slot in ("undo", "redo"):
                fa = p.raw_fns.get("<%s as io::logger::Operation>::%s" % (rec, slot))
                if fa is None:
                    raise AnchorMissing("%s::%s accessor not found" % (rec, slot))
                for b in fa.blocks:
                    for st in b["stmts"]:
                        if st["rv"].get("r") == "ref":
                            for pe in st["rv"]["p"][1:]:
                                if isinstance(pe, str) and pe.endswith(":" + rec):
                                    slot_of_field[pe[1:].split(":")[0]] = slot
            # log_X: own parameter -> constructor parameter
            slot_of_logparam = {}
            for c in fl.calls():
                if c.callee == rec + "::new":
                    for j, a in enumerate(c.args):
                        l = op_local(a)
                        for k_, x in (fl.nearest_calls(l) if l is not None else ()):
                            if k_ == "param" and (j + 1) in field_of_param and field_of_param[j + 1] in slot_of_field:
                                slot_of_logparam[x] = slot_of_field[field_of_param[j + 1]]
            if set(slot_of_logparam.values()) != {"undo", "redo"}:
                raise AnchorMissing("could not derive the undo/redo parameters of %s" % lg)
            for site in K.sites(p, K.LOGGER + "::" + lg):
                if site.callee != K.LOGGER + "::" + lg:
                    continue
                for pi, slot in slot_of_logparam.items():
                    if pi - 1 < len(site.args) and op_local(site.args[pi - 1]) is not None:
                        for k_, x in site.fn.nearest_calls(op_local(site.args[pi - 1])):
                            if k_ == "call" and x.endswith("::to_bytes"):
                                W.setdefault((rec, slot), set()).add(x[:-len("::to_bytes")].rsplit("::", 1)[-1].strip("<>"))
        types_written = set().union(*W.values()) if W else set()
        handlers = [g for g in K.each_fn(p) if g.impl_adt == RECUP and g.kind != "closure" and g.nargs >= 2
                    and g.locals[2].lstrip("&").strip() in LOGOPS.values()]
        if not handlers:
            cx.bad(r13, "handlers:anchor-missing", "", "no recovery handler takes a Create/DropOp/Alter record")
        for g in sorted(handlers, key=lambda x: x.id):
            rec = g.locals[2].lstrip("&").strip()
            n_dec = 0
            for c in g.calls():
                if not c.callee.endswith("::from_bytes") or not c.args or op_local(c.args[0]) is None:
                    continue
                ty = c.callee[:-len("::from_bytes")].rsplit("::", 1)[-1].strip("<>")
                if ty not in types_written:
                    continue            # a generic fallback decoder: nothing is ever written in that form
                slots = {x.rsplit("::", 1)[-1] for k_, x in g.nearest_calls(op_local(c.args[0])) if k_ == "call" and x.rsplit("::", 1)[-1] in ("undo", "redo")
                         and "Operation" in x}
                for slot in sorted(slots):
                    n_dec += 1
                    other = "redo" if slot == "undo" else "undo"
                    if ty not in W.get((rec, slot), ()) and ty not in W.get((rec, other), ()):
                        continue        # a form no statement logs in this kind of record (defensive decode): nothing to agree with
                    cx.verdict(ty in W.get((rec, slot), ()), r13, "%s:%s<-%s" % (g.name, ty, slot), c.where(),
                               "the statement serialises %s into %s.%s()" % (sorted(W.get((rec, slot), ())), rec.rsplit("::", 1)[-1], slot),
                               "%s decodes a %s from %s.%s(), where the statement puts %s: the decode fails, the handler returns Ok and the "
                               "logged operation is never replayed" % (g.name, ty, rec.rsplit("::", 1)[-1], slot, sorted(W.get((rec, slot), ())) or "nothing"))
            if n_dec == 0:
                # the decoding may be handed to combinators (`non_empty(op.undo()).and_then(LoggedObject::decode)`): the decoders the
                # handler reaches inside this file decode the one slot the handler reads
                slots_read = {c.callee.rsplit("::", 1)[-1] for m_ in K.family(p, g) for c in m_.calls()
                              if c.callee.rsplit("::", 1)[-1] in ("undo", "redo") and "Operation" in c.callee}
                local = [p.raw_fns[x] for x in p.reach_forward([g.id], stop={h_.id for h_ in handlers if h_.id != g.id})
                         if x in p.raw_fns and x != g.id and p.raw_fns[x].file == g.file and p.raw_fns[x].impl_adt != "runtime::ddl::DdlExecutor"]
                decs = sorted({c.callee[:-len("::from_bytes")].rsplit("::", 1)[-1].strip("<>") for h_ in local for c in h_.calls()
                               if c.callee.endswith("::from_bytes")} & types_written)
                if len(slots_read) == 1 and decs:
                    slot = next(iter(slots_read))
                    other = "redo" if slot == "undo" else "undo"
                    for ty in decs:
                        if ty not in W.get((rec, slot), ()) and ty not in W.get((rec, other), ()):
                            continue
                        n_dec += 1
                        cx.verdict(ty in W.get((rec, slot), ()), r13, "%s:%s<-%s" % (g.name, ty, slot), g.where(),
                                   "the statement serialises %s into %s.%s() (decoded by a helper the handler reaches)" % (sorted(W.get((rec, slot), ())), rec.rsplit("::", 1)[-1], slot),
                                   "%s decodes a %s from %s.%s(), where the statement puts %s: the decode fails, the handler returns Ok and the "
                                   "logged operation is never replayed" % (g.name, ty, rec.rsplit("::", 1)[-1], slot, sorted(W.get((rec, slot), ())) or "nothing"))
            if n_dec == 0:
                cx.bad(r13, g.name + ":no-decode", g.where(), "%s decodes no instruction from its record's undo()/redo() payload" % g.name)
    except AnchorMissing as e:
        cx.bad(r13, "anchor-missing", "", str(e))

    # ---- C08.3 advisory -------------------------------------------------------------------------------------
    r3 = cx.rule("C08.3", "advisory: RecordHeader.total_size read from a log block is used for slicing/cursor "
                 "arithmetic without a bound check against the block's used_bytes")
    cx.advisory(r3, "record-size-unchecked", "crates/axmos-db/src/storage/wal.rs",
                "under the property's crash model a block is written whole, so no failing crash image can be "
                "exhibited; reported for information only")

    # ---- C08.9 / C08.10 (constructs shared with C09.5 and C02.2) -------------------------------------------------------
    from . import c09, c02
    cx.include(c09, {"C09.5"}, "C08.9", "shared with C09.5: replaying an INSERT whose row already reached the data file still does the statement's "
               "bookkeeping (index maintenance, next row id); a redo that returns early leaves a database that reopens but silently "
               "drops later inserts", floor=1)
    cx.include(c02, {"C02.2"}, "C08.10", "shared with C02.2: the analysis pass classifies every record kind and gives every transaction it classifies an "
               "LSN chain, also when its BEGIN was cut off by a checkpoint; otherwise redo/undo stop with an error and open() fails", floor=4)

    # ---- C08.11 / C08.12 (constructs shared with C09.4 and C09.1) ----------------------------------------------------------
    cx.include(c09, {"C09.4"}, "C08.11", "shared with C09.4: what open() loads from the persisted aborted bitmap is what was marked (same bit "
               "layout on both sides); otherwise every reopen turns some rolled-back transactions into committed ones", floor=4, skip=("drops-large-ids",))
    cx.include(c09, {"C09.1"}, "C08.12", "shared with C09.1: a checkpoint writes page zero on every path before it cuts the log; the header carries the "
               "aborted bitmap and the transaction counters, and the log records that could restore them are gone after the cut", floor=5)

    # ---- C08.14 (construct shared with C17.3) ------------------------------------------------------------------------------
    from . import c17 as _c17
    cx.include(_c17, {"C17.3"}, "C08.14", "shared with C17.3: where push places a record and when it opens a new block - Database::open appends the "
               "recovery transaction's BEGIN before it analyses the log, so a push that counts a block the file does not hold makes "
               "the analysis read past the end and open() fail", floor=4)
