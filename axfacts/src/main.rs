// axfacts — fact extractor for the AxmosDB static checks.
//
// A rustc_private driver, injected with RUSTC_WORKSPACE_WRAPPER under
// `cargo +nightly check`. For every workspace crate it dumps, after analysis,
// one JSONL file ($AXFACTS_OUT/<crate>.<kind>.jsonl, single write) holding
//   fn    – every MIR body: locals, user variable names, blocks, statements,
//           terminators (calls with the callee resolved through
//           Instance::try_resolve), immediate dominators
//   adt   – enums/structs with variants, discriminants, fields
//   impl  – trait and inherent impls with their associated functions
//   const – evaluated integer constants
// It never looks at source text; spans are emitted for reporting only.
#![feature(rustc_private)]
#![allow(clippy::all)]
extern crate rustc_abi;
extern crate rustc_driver;
extern crate rustc_hir;
extern crate rustc_interface;
extern crate rustc_middle;
extern crate rustc_span;

use rustc_driver::Compilation;
use rustc_hir::def::DefKind;
use rustc_hir::def_id::{DefId, LOCAL_CRATE};
use rustc_interface::interface::Compiler;
use rustc_middle::mir::{
    AggregateKind, BasicBlock, Body, Const, Operand, Place, ProjectionElem, Rvalue, StatementKind,
    TerminatorKind, UnwindAction,
};
use rustc_middle::ty::print::with_no_trimmed_paths;
use rustc_middle::ty::{self, GenericArgsRef, Instance, Ty, TyCtxt, TypingEnv};
use rustc_span::Span;
use std::fmt::Write as _;

fn esc(s: &str) -> String {
    let mut o = String::with_capacity(s.len() + 2);
    o.push('"');
    for c in s.chars() {
        match c {
            '"' => o.push_str("\\\""),
            '\\' => o.push_str("\\\\"),
            '\n' => o.push_str("\\n"),
            '\r' => o.push_str("\\r"),
            '\t' => o.push_str("\\t"),
            c if (c as u32) < 0x20 => {
                let _ = write!(o, "\\u{:04x}", c as u32);
            }
            c => o.push(c),
        }
    }
    o.push('"');
    o
}

struct Cx<'tcx> {
    tcx: TyCtxt<'tcx>,
}

impl<'tcx> Cx<'tcx> {
    fn path(&self, d: DefId) -> String {
        with_no_trimmed_paths!(self.tcx.def_path_str(d))
    }
    fn ty(&self, t: Ty<'tcx>) -> String {
        with_no_trimmed_paths!(t.to_string())
    }
    fn gargs(&self, a: GenericArgsRef<'tcx>) -> String {
        let v: Vec<String> = a.iter().map(|x| esc(&with_no_trimmed_paths!(x.to_string()))).collect();
        format!("[{}]", v.join(","))
    }
    fn loc(&self, sp: Span) -> (String, usize, usize) {
        let sm = self.tcx.sess.source_map();
        let lo = sm.lookup_char_pos(sp.lo());
        let hi = sm.lookup_char_pos(sp.hi());
        let f = match &lo.file.name {
            rustc_span::FileName::Real(r) => match r.local_path() {
                Some(p) => p.to_string_lossy().into_owned(),
                None => format!("{:?}", lo.file.name),
            },
            o => format!("{:?}", o),
        };
        (f, lo.line, hi.line)
    }
    fn line(&self, sp: Span) -> usize {
        // line of the outermost user-written location of this span
        let sp = sp.source_callsite();
        self.tcx.sess.source_map().lookup_char_pos(sp.lo()).line
    }

    fn place(&self, body: &Body<'tcx>, p: &Place<'tcx>) -> String {
        let mut out = format!("[{}", p.local.as_usize());
        let mut pty = rustc_middle::mir::PlaceTy::from_ty(body.local_decls[p.local].ty);
        for elem in p.projection.iter() {
            match elem {
                ProjectionElem::Deref => out.push_str(",\"*\""),
                ProjectionElem::Field(f, _) => {
                    let mut name = format!(".{}", f.as_usize());
                    match pty.ty.kind() {
                        ty::Adt(adt, _) => {
                            let vidx = pty.variant_index.unwrap_or(rustc_abi::FIRST_VARIANT);
                            if vidx.as_usize() < adt.variants().len() {
                                let v = adt.variant(vidx);
                                if f.as_usize() < v.fields.len() {
                                    name = format!(
                                        ".{}:{}",
                                        v.fields[f].name.as_str(),
                                        self.path(adt.did())
                                    );
                                }
                            }
                        }
                        ty::Closure(..) => name = format!(".{}:closure", f.as_usize()),
                        _ => {}
                    }
                    let _ = write!(out, ",{}", esc(&name));
                }
                ProjectionElem::Index(l) => {
                    let _ = write!(out, ",\"[_{}]\"", l.as_usize());
                }
                ProjectionElem::ConstantIndex { offset, from_end, .. } => {
                    let _ = write!(out, ",\"[{}{}]\"", if from_end { "-" } else { "" }, offset);
                }
                ProjectionElem::Subslice { .. } => out.push_str(",\"[..]\""),
                ProjectionElem::Downcast(sym, vi) => {
                    let n = match sym {
                        Some(s) => s.as_str().to_string(),
                        None => format!("{}", vi.as_usize()),
                    };
                    let _ = write!(out, ",{}", esc(&format!("@{}", n)));
                }
                ProjectionElem::OpaqueCast(_) => out.push_str(",\"opaque\""),
                ProjectionElem::UnwrapUnsafeBinder(_) => out.push_str(",\"unbinder\""),
            }
            pty = pty.projection_ty(self.tcx, elem);
        }
        out.push(']');
        out
    }

    fn konst(&self, owner: DefId, c: &Const<'tcx>) -> String {
        let t = c.ty();
        let mut s = format!("{{\"ty\":{}", esc(&self.ty(t)));
        match t.kind() {
            ty::FnDef(d, a) => {
                let _ = write!(s, ",\"fn\":{},\"gargs\":{}", esc(&self.path(*d)), self.gargs(a));
                // resolve when possible (fn item used as a value)
                let env = TypingEnv::post_analysis(self.tcx, owner);
                if let Ok(Some(i)) = Instance::try_resolve(self.tcx, env, *d, a) {
                    let _ = write!(s, ",\"res\":{}", esc(&self.path(i.def_id())));
                }
            }
            _ => {
                if let Some(si) = c.try_to_scalar_int() {
                    let sz = si.size();
                    let v = match t.kind() {
                        ty::Int(_) => format!("{}", si.to_int(sz)),
                        _ => format!("{}", si.to_uint(sz)),
                    };
                    let _ = write!(s, ",\"v\":{}", v);
                } else if let Const::Unevaluated(u, _) = c {
                    if let Some(pi) = u.promoted {
                        let _ = write!(s, ",\"promoted\":{}", pi.as_usize());
                    } else {
                        let _ = write!(s, ",\"cdef\":{}", esc(&self.path(u.def)));
                    }
                }
            }
        }
        s.push('}');
        s
    }

    fn operand(&self, owner: DefId, body: &Body<'tcx>, o: &Operand<'tcx>) -> String {
        match o {
            Operand::Copy(p) => format!("{{\"c\":{}}}", self.place(body, p)),
            Operand::Move(p) => format!("{{\"m\":{}}}", self.place(body, p)),
            Operand::Constant(c) => format!("{{\"k\":{}}}", self.konst(owner, &c.const_)),
            _ => "{\"k\":{\"ty\":\"runtime-check\"}}".to_string(),
        }
    }

    fn ops(&self, owner: DefId, body: &Body<'tcx>, v: &[&Operand<'tcx>]) -> String {
        let x: Vec<String> = v.iter().map(|o| self.operand(owner, body, o)).collect();
        format!("[{}]", x.join(","))
    }

    fn rvalue(&self, owner: DefId, body: &Body<'tcx>, rv: &Rvalue<'tcx>) -> String {
        match rv {
            Rvalue::Use(o, ..) => format!("{{\"r\":\"use\",\"o\":{}}}", self.ops(owner, body, &[o])),
            Rvalue::Repeat(o, _) => {
                format!("{{\"r\":\"repeat\",\"o\":{}}}", self.ops(owner, body, &[o]))
            }
            Rvalue::Ref(_, bk, p) => format!(
                "{{\"r\":\"ref\",\"mut\":{},\"p\":{}}}",
                matches!(bk, rustc_middle::mir::BorrowKind::Mut { .. }),
                self.place(body, p)
            ),
            Rvalue::RawPtr(k, p) => format!(
                "{{\"r\":\"rawptr\",\"mut\":{},\"p\":{}}}",
                format!("{:?}", k).contains("Mut"),
                self.place(body, p)
            ),
            Rvalue::Cast(k, o, t) => {
                let ks = format!("{:?}", k);
                format!(
                    "{{\"r\":\"cast\",\"kind\":{},\"to\":{},\"o\":{}}}",
                    esc(&ks),
                    esc(&self.ty(*t)),
                    self.ops(owner, body, &[o])
                )
            }
            Rvalue::BinaryOp(op, b) => format!(
                "{{\"r\":\"bin\",\"op\":{},\"o\":{}}}",
                esc(&format!("{:?}", op)),
                self.ops(owner, body, &[&b.0, &b.1])
            ),
            Rvalue::UnaryOp(op, o) => format!(
                "{{\"r\":\"un\",\"op\":{},\"o\":{}}}",
                esc(&format!("{:?}", op)),
                self.ops(owner, body, &[o])
            ),
            Rvalue::Discriminant(p) => format!("{{\"r\":\"discr\",\"p\":{}}}", self.place(body, p)),
            Rvalue::CopyForDeref(p) => {
                format!("{{\"r\":\"use\",\"o\":[{{\"c\":{}}}]}}", self.place(body, p))
            }
            Rvalue::Aggregate(k, fields) => {
                let refs: Vec<&Operand<'tcx>> = fields.iter().collect();
                let o = self.ops(owner, body, &refs);
                match &**k {
                    AggregateKind::Array(_) => format!("{{\"r\":\"agg\",\"akind\":\"array\",\"o\":{}}}", o),
                    AggregateKind::Tuple => format!("{{\"r\":\"agg\",\"akind\":\"tuple\",\"o\":{}}}", o),
                    AggregateKind::Adt(d, vi, _, _, _) => {
                        let adt = self.tcx.adt_def(*d);
                        let vname = if adt.is_enum() {
                            esc(adt.variant(*vi).name.as_str())
                        } else {
                            "null".to_string()
                        };
                        let fnames: Vec<String> = adt
                            .variant(*vi)
                            .fields
                            .iter()
                            .map(|f| esc(f.name.as_str()))
                            .collect();
                        format!(
                            "{{\"r\":\"agg\",\"akind\":\"adt\",\"adt\":{},\"variant\":{},\"fields\":[{}],\"o\":{}}}",
                            esc(&self.path(*d)),
                            vname,
                            fnames.join(","),
                            o
                        )
                    }
                    AggregateKind::Closure(d, _)
                    | AggregateKind::Coroutine(d, _)
                    | AggregateKind::CoroutineClosure(d, _) => format!(
                        "{{\"r\":\"agg\",\"akind\":\"closure\",\"def\":{},\"o\":{}}}",
                        esc(&self.path(*d)),
                        o
                    ),
                    AggregateKind::RawPtr(..) => format!("{{\"r\":\"agg\",\"akind\":\"rawptr\",\"o\":{}}}", o),
                }
            }
            Rvalue::ThreadLocalRef(d) => format!("{{\"r\":\"tls\",\"def\":{}}}", esc(&self.path(*d))),
            Rvalue::WrapUnsafeBinder(o, _) => {
                format!("{{\"r\":\"use\",\"o\":{}}}", self.ops(owner, body, &[o]))
            }
        }
    }

    fn bb(b: BasicBlock) -> usize {
        b.as_usize()
    }
    fn unwind(u: &UnwindAction) -> String {
        match u {
            UnwindAction::Cleanup(b) => format!("{}", b.as_usize()),
            _ => "null".to_string(),
        }
    }

    fn body(&self, did: DefId, out: &mut String) {
        let tcx = self.tcx;
        let kind = tcx.def_kind(did);
        let body: &Body<'tcx> = tcx.optimized_mir(did);
        let (file, l0, l1) = self.loc(tcx.def_span(did));
        let full = tcx.hir_span_with_body(tcx.local_def_id_to_hir_id(did.expect_local()));
        let (_, _, lend) = self.loc(full);
        let kname = match kind {
            DefKind::Fn => "fn",
            DefKind::AssocFn => "assoc",
            DefKind::Closure => "closure",
            _ => "other",
        };
        let _ = write!(
            out,
            "{{\"k\":\"fn\",\"id\":{},\"kind\":\"{}\",\"file\":{},\"line\":{},\"end_line\":{}",
            esc(&self.path(did)),
            kname,
            esc(&file),
            l0,
            lend.max(l1)
        );
        if matches!(kind, DefKind::Closure) {
            let p = tcx.typeck_root_def_id(did);
            let _ = write!(out, ",\"root\":{}", esc(&self.path(p)));
            let _ = write!(out, ",\"parent\":{}", esc(&self.path(tcx.parent(did))));
        }
        if matches!(kind, DefKind::Fn | DefKind::AssocFn) {
            let vis = tcx.visibility(did);
            let v = if vis.is_public() { "pub" } else { "restricted" };
            let _ = write!(out, ",\"vis\":\"{}\"", v);
        }
        if matches!(kind, DefKind::AssocFn) {
            let parent = tcx.parent(did);
            match tcx.def_kind(parent) {
                DefKind::Impl { of_trait } => {
                    let selfty = tcx.type_of(parent).instantiate_identity().skip_norm_wip();
                    let _ = write!(out, ",\"impl_self\":{}", esc(&self.ty(selfty)));
                    if let ty::Adt(a, _) = selfty.kind() {
                        let _ = write!(out, ",\"impl_adt\":{}", esc(&self.path(a.did())));
                    }
                    if of_trait {
                        let tr = tcx.impl_trait_ref(parent).instantiate_identity().skip_norm_wip();
                        let _ = write!(out, ",\"impl_trait\":{}", esc(&self.path(tr.def_id)));
                    }
                }
                DefKind::Trait => {
                    let _ = write!(out, ",\"in_trait\":{}", esc(&self.path(parent)));
                }
                _ => {}
            }
            let _ = write!(out, ",\"name\":{}", esc(tcx.item_name(did).as_str()));
        } else if matches!(kind, DefKind::Fn) {
            let _ = write!(out, ",\"name\":{}", esc(tcx.item_name(did).as_str()));
        }
        let _ = write!(out, ",\"nargs\":{}", body.arg_count);
        // locals
        out.push_str(",\"locals\":[");
        for (i, d) in body.local_decls.iter().enumerate() {
            if i > 0 {
                out.push(',');
            }
            out.push_str(&esc(&self.ty(d.ty)));
        }
        out.push_str("],\"names\":{");
        let mut first = true;
        for vdi in body.var_debug_info.iter() {
            if let rustc_middle::mir::VarDebugInfoContents::Place(p) = &vdi.value {
                if !first {
                    out.push(',');
                }
                first = false;
                // name -> place ; duplicates (shadowing) get a #n suffix
                let _ = write!(
                    out,
                    "{}:{}",
                    esc(&format!("{}#{}", vdi.name.as_str(), self.line(vdi.source_info.span))),
                    self.place(body, p)
                );
            }
        }
        out.push_str("},\"promoted\":[");
        if !matches!(kind, DefKind::Closure) || true {
            let proms = tcx.promoted_mir(did);
            let mut fp = true;
            for pb in proms.iter() {
                if !fp {
                    out.push(',');
                }
                fp = false;
                // summarise the promoted value: the aggregate / constant it is built from
                let mut summary = String::from("null");
                for bbd in pb.basic_blocks.iter() {
                    for st in bbd.statements.iter() {
                        if let StatementKind::Assign(b) = &st.kind {
                            match &b.1 {
                                Rvalue::Aggregate(k, _) => {
                                    if let AggregateKind::Adt(d, vi, _, _, _) = &**k {
                                        let adt = tcx.adt_def(*d);
                                        if adt.is_enum() {
                                            summary = format!(
                                                "{{\"adt\":{},\"variant\":{}}}",
                                                esc(&self.path(*d)),
                                                esc(adt.variant(*vi).name.as_str())
                                            );
                                        }
                                    }
                                }
                                Rvalue::Use(Operand::Constant(c), ..) => {
                                    if let Some(si) = c.const_.try_to_scalar_int() {
                                        let sz = si.size();
                                        if summary == "null" {
                                            summary = format!("{{\"v\":{}}}", si.to_uint(sz));
                                        }
                                    }
                                }
                                _ => {}
                            }
                        }
                    }
                }
                out.push_str(&summary);
            }
        }
        out.push_str("],\"blocks\":[");
        let doms = body.basic_blocks.dominators();
        for (bi, bbd) in body.basic_blocks.iter_enumerated() {
            if bi.as_usize() > 0 {
                out.push(',');
            }
            let idom = match doms.immediate_dominator(bi) {
                Some(d) => format!("{}", d.as_usize()),
                None => "null".to_string(),
            };
            let _ = write!(out, "{{\"cleanup\":{},\"idom\":{},\"stmts\":[", bbd.is_cleanup, idom);
            let mut fs = true;
            for st in bbd.statements.iter() {
                let js = match &st.kind {
                    StatementKind::Assign(b) => {
                        let (p, rv) = &**b;
                        Some(format!(
                            "{{\"l\":{},\"x\":{},\"dst\":{},\"rv\":{}}}",
                            self.line(st.source_info.span),
                            st.source_info.span.from_expansion(),
                            self.place(body, p),
                            self.rvalue(did, body, rv)
                        ))
                    }
                    StatementKind::SetDiscriminant { place, variant_index } => Some(format!(
                        "{{\"l\":{},\"x\":false,\"dst\":{},\"rv\":{{\"r\":\"setdiscr\",\"v\":{}}}}}",
                        self.line(st.source_info.span),
                        self.place(body, place),
                        variant_index.as_usize()
                    )),
                    _ => None,
                };
                if let Some(j) = js {
                    if !fs {
                        out.push(',');
                    }
                    fs = false;
                    out.push_str(&j);
                }
            }
            out.push_str("],\"term\":");
            let term = bbd.terminator();
            let line = self.line(term.source_info.span);
            let exp = term.source_info.span.from_expansion();
            match &term.kind {
                TerminatorKind::Goto { target } => {
                    let _ = write!(out, "{{\"t\":\"goto\",\"to\":{}}}", Self::bb(*target));
                }
                TerminatorKind::SwitchInt { discr, targets } => {
                    let dty = discr.ty(&body.local_decls, tcx);
                    let mut tv = Vec::new();
                    for (v, b) in targets.iter() {
                        // present signed discriminants as signed
                        let vs = match dty.kind() {
                            ty::Int(_) => {
                                let sz = tcx
                                    .layout_of(TypingEnv::fully_monomorphized().as_query_input(dty))
                                    .map(|l| l.size.bits())
                                    .unwrap_or(128);
                                let sh = 128 - sz as u32;
                                format!("{}", ((v << sh) as i128) >> sh)
                            }
                            _ => format!("{}", v),
                        };
                        tv.push(format!("[{},{}]", vs, Self::bb(b)));
                    }
                    let _ = write!(
                        out,
                        "{{\"t\":\"switch\",\"l\":{},\"o\":{},\"ty\":{},\"targets\":[{}],\"otherwise\":{}}}",
                        line,
                        self.operand(did, body, discr),
                        esc(&self.ty(dty)),
                        tv.join(","),
                        Self::bb(targets.otherwise())
                    );
                }
                TerminatorKind::Return => out.push_str("{\"t\":\"ret\"}"),
                TerminatorKind::Unreachable => out.push_str("{\"t\":\"unreach\"}"),
                TerminatorKind::UnwindResume => out.push_str("{\"t\":\"resume\"}"),
                TerminatorKind::UnwindTerminate(_) => out.push_str("{\"t\":\"abort\"}"),
                TerminatorKind::Drop { place, target, unwind, .. } => {
                    let pt = place.ty(&body.local_decls, tcx).ty;
                    let _ = write!(
                        out,
                        "{{\"t\":\"drop\",\"l\":{},\"p\":{},\"ty\":{},\"to\":{},\"unwind\":{}}}",
                        line,
                        self.place(body, place),
                        esc(&self.ty(pt)),
                        Self::bb(*target),
                        Self::unwind(unwind)
                    );
                }
                TerminatorKind::Call { func, args, destination, target, unwind, fn_span, .. } => {
                    let refs: Vec<&Operand<'tcx>> = args.iter().map(|a| &a.node).collect();
                    let mut callee = String::new();
                    let fty = func.ty(&body.local_decls, tcx);
                    match fty.kind() {
                        ty::FnDef(cd, cargs) => {
                            let _ = write!(
                                callee,
                                "{{\"def\":{},\"gargs\":{}",
                                esc(&self.path(*cd)),
                                self.gargs(cargs)
                            );
                            if let Some(tr) = tcx.trait_of_assoc(*cd) {
                                let _ = write!(callee, ",\"trait\":{}", esc(&self.path(tr)));
                            }
                            let env = TypingEnv::post_analysis(tcx, did);
                            match Instance::try_resolve(tcx, env, *cd, cargs) {
                                Ok(Some(i)) => {
                                    let kind = match i.def {
                                        ty::InstanceKind::Item(_) => "item",
                                        ty::InstanceKind::Virtual(..) => "virtual",
                                        ty::InstanceKind::ClosureOnceShim { .. } => "closure_once",
                                        ty::InstanceKind::FnPtrShim(..) => "fnptr_shim",
                                        ty::InstanceKind::DropGlue(..) => "drop_glue",
                                        ty::InstanceKind::CloneShim(..) => "clone_shim",
                                        ty::InstanceKind::Intrinsic(_) => "intrinsic",
                                        _ => "shim",
                                    };
                                    let _ = write!(
                                        callee,
                                        ",\"res\":{},\"rkind\":\"{}\",\"rgargs\":{}",
                                        esc(&self.path(i.def_id())),
                                        kind,
                                        self.gargs(i.args)
                                    );
                                }
                                _ => callee.push_str(",\"res\":null"),
                            }
                            callee.push('}');
                        }
                        _ => {
                            let _ = write!(
                                callee,
                                "{{\"ind\":true,\"ty\":{},\"o\":{}}}",
                                esc(&self.ty(fty)),
                                self.operand(did, body, func)
                            );
                        }
                    }
                    let tgt = match target {
                        Some(t) => format!("{}", Self::bb(*t)),
                        None => "null".to_string(),
                    };
                    let _ = write!(
                        out,
                        "{{\"t\":\"call\",\"l\":{},\"x\":{},\"fl\":{},\"fn\":{},\"args\":{},\"dst\":{},\"to\":{},\"unwind\":{}}}",
                        line,
                        exp,
                        self.line(*fn_span),
                        callee,
                        self.ops(did, body, &refs),
                        self.place(body, destination),
                        tgt,
                        Self::unwind(unwind)
                    );
                }
                TerminatorKind::Assert { cond, expected, msg, target, unwind } => {
                    use rustc_middle::mir::AssertKind as AK;
                    let (mk, mo): (String, Vec<&Operand<'tcx>>) = match &**msg {
                        AK::BoundsCheck { len, index } => ("BoundsCheck".into(), vec![len, index]),
                        AK::Overflow(op, a, b) => (format!("Overflow({:?})", op), vec![a, b]),
                        AK::OverflowNeg(a) => ("OverflowNeg".into(), vec![a]),
                        AK::DivisionByZero(a) => ("DivisionByZero".into(), vec![a]),
                        AK::RemainderByZero(a) => ("RemainderByZero".into(), vec![a]),
                        AK::MisalignedPointerDereference { .. } => ("Misaligned".into(), vec![]),
                        AK::NullPointerDereference => ("NullPtr".into(), vec![]),
                        AK::InvalidEnumConstruction(_) => ("InvalidEnum".into(), vec![]),
                        _ => ("Other".into(), vec![]),
                    };
                    let _ = write!(
                        out,
                        "{{\"t\":\"assert\",\"l\":{},\"x\":{},\"o\":{},\"expected\":{},\"msg\":{},\"mo\":{},\"to\":{},\"unwind\":{}}}",
                        line,
                        exp,
                        self.operand(did, body, cond),
                        expected,
                        esc(&mk),
                        self.ops(did, body, &mo),
                        Self::bb(*target),
                        Self::unwind(unwind)
                    );
                }
                TerminatorKind::FalseEdge { real_target, .. } => {
                    let _ = write!(out, "{{\"t\":\"goto\",\"to\":{}}}", Self::bb(*real_target));
                }
                TerminatorKind::FalseUnwind { real_target, .. } => {
                    let _ = write!(out, "{{\"t\":\"goto\",\"to\":{}}}", Self::bb(*real_target));
                }
                other => {
                    let succ: Vec<String> =
                        other.successors().map(|b| format!("{}", b.as_usize())).collect();
                    let _ = write!(out, "{{\"t\":\"other\",\"succ\":[{}]}}", succ.join(","));
                }
            }
            out.push('}');
        }
        out.push_str("]}\n");
    }

    fn adts_impls_consts(&self, out: &mut String) {
        let tcx = self.tcx;
        for id in tcx.hir_free_items() {
            let did = id.owner_id.to_def_id();
            match tcx.def_kind(did) {
                DefKind::Enum | DefKind::Struct | DefKind::Union => {
                    let adt = tcx.adt_def(did);
                    let kind = if adt.is_enum() {
                        "enum"
                    } else if adt.is_struct() {
                        "struct"
                    } else {
                        "union"
                    };
                    let (file, l0, _) = self.loc(tcx.def_span(did));
                    let _ = write!(
                        out,
                        "{{\"k\":\"adt\",\"id\":{},\"kind\":\"{}\",\"file\":{},\"line\":{},\"variants\":[",
                        esc(&self.path(did)),
                        kind,
                        esc(&file),
                        l0
                    );
                    let mut fv = true;
                    for (vi, v) in adt.variants().iter_enumerated() {
                        if !fv {
                            out.push(',');
                        }
                        fv = false;
                        let discr = if adt.is_enum() {
                            format!("{}", adt.discriminant_for_variant(tcx, vi).val)
                        } else {
                            "0".to_string()
                        };
                        let _ = write!(
                            out,
                            "{{\"name\":{},\"idx\":{},\"discr\":{},\"fields\":[",
                            esc(v.name.as_str()),
                            vi.as_usize(),
                            discr
                        );
                        let mut ff = true;
                        for f in v.fields.iter() {
                            if !ff {
                                out.push(',');
                            }
                            ff = false;
                            let fty = tcx.type_of(f.did).instantiate_identity().skip_norm_wip();
                            let _ = write!(
                                out,
                                "{{\"n\":{},\"ty\":{}}}",
                                esc(f.name.as_str()),
                                esc(&self.ty(fty))
                            );
                        }
                        out.push_str("]}");
                    }
                    out.push_str("]}\n");
                }
                DefKind::Impl { of_trait } => {
                    let selfty = tcx.type_of(did).instantiate_identity().skip_norm_wip();
                    let (file, l0, _) = self.loc(tcx.def_span(did));
                    let _ = write!(
                        out,
                        "{{\"k\":\"impl\",\"self\":{},\"file\":{},\"line\":{}",
                        esc(&self.ty(selfty)),
                        esc(&file),
                        l0
                    );
                    if let ty::Adt(a, _) = selfty.kind() {
                        let _ = write!(out, ",\"adt\":{}", esc(&self.path(a.did())));
                    }
                    if of_trait {
                        let tr = tcx.impl_trait_ref(did).instantiate_identity().skip_norm_wip();
                        let _ = write!(out, ",\"trait\":{}", esc(&self.path(tr.def_id)));
                        let _ = write!(out, ",\"trait_args\":{}", self.gargs(tr.args));
                        let neg = matches!(tcx.impl_polarity(did), ty::ImplPolarity::Negative);
                        let _ = write!(out, ",\"negative\":{}", neg);
                    }
                    out.push_str(",\"items\":[");
                    let mut fi = true;
                    for it in tcx.associated_items(did).in_definition_order() {
                        if !fi {
                            out.push(',');
                        }
                        fi = false;
                        let _ = write!(
                            out,
                            "{{\"name\":{},\"id\":{},\"kind\":{}}}",
                            esc(it.opt_name().map(|n| n.to_string()).unwrap_or_default().as_str()),
                            esc(&self.path(it.def_id)),
                            esc(&format!("{:?}", it.kind.as_def_kind()))
                        );
                    }
                    out.push_str("]}\n");
                }
                DefKind::Const { .. } => self.konst_item(did, out),
                DefKind::Trait => {
                    let _ = write!(out, "{{\"k\":\"trait\",\"id\":{},\"items\":[", esc(&self.path(did)));
                    let mut fi = true;
                    for it in tcx.associated_items(did).in_definition_order() {
                        if !fi {
                            out.push(',');
                        }
                        fi = false;
                        let _ = write!(
                            out,
                            "{{\"name\":{},\"id\":{},\"default\":{}}}",
                            esc(it.opt_name().map(|n| n.to_string()).unwrap_or_default().as_str()),
                            esc(&self.path(it.def_id)),
                            it.defaultness(tcx).has_value()
                        );
                    }
                    out.push_str("]}\n");
                }
                _ => {}
            }
        }
        // associated consts of inherent/trait impls
        for id in tcx.hir_crate_items(()).impl_items() {
            let did = id.owner_id.to_def_id();
            if matches!(tcx.def_kind(did), DefKind::AssocConst { .. }) {
                self.konst_item(did, out);
            }
        }
    }

    fn konst_item(&self, did: DefId, out: &mut String) {
        let tcx = self.tcx;
        if tcx.generics_of(did).requires_monomorphization(tcx) {
            return;
        }
        let t = tcx.type_of(did).instantiate_identity().skip_norm_wip();
        if let ty::Tuple(elems) = t.kind() {
            // a tuple of integers written as a literal: `const BP: (u8, u8) = (5, 6);`
            if elems.is_empty() || !elems.iter().all(|e| e.is_integral() || e.is_bool()) || !did.is_local() {
                return;
            }
            let body = tcx.mir_for_ctfe(did);
            let mut vals: Option<Vec<String>> = None;
            for bbd in body.basic_blocks.iter() {
                for st in bbd.statements.iter() {
                    if let StatementKind::Assign(b) = &st.kind {
                        if b.0.local.as_usize() != 0 || !b.0.projection.is_empty() {
                            continue;
                        }
                        if let Rvalue::Aggregate(k, ops) = &b.1 {
                            if matches!(&**k, AggregateKind::Tuple) {
                                let mut vs = Vec::new();
                                for o in ops.iter() {
                                    if let Operand::Constant(c) = o {
                                        if let Some(si) = c.const_.try_to_scalar_int() {
                                            let sz = si.size();
                                            vs.push(match c.const_.ty().kind() {
                                                ty::Int(_) => format!("{}", si.to_int(sz)),
                                                _ => format!("{}", si.to_uint(sz)),
                                            });
                                        }
                                    }
                                }
                                if vs.len() == ops.len() {
                                    vals = Some(vs);
                                }
                            }
                        }
                    }
                }
            }
            if let Some(vs) = vals {
                let (file, l0, _) = self.loc(tcx.def_span(did));
                let _ = write!(
                    out,
                    "{{\"k\":\"const\",\"id\":{},\"ty\":{},\"v\":[{}],\"file\":{},\"line\":{}}}\n",
                    esc(&self.path(did)),
                    esc(&self.ty(t)),
                    vs.join(","),
                    esc(&file),
                    l0
                );
            }
            return;
        }
        if !(t.is_integral() || t.is_bool()) {
            return;
        }
        if let Ok(v) = tcx.const_eval_poly(did) {
            if let Some(si) = v.try_to_scalar_int() {
                let sz = si.size();
                let vs = match t.kind() {
                    ty::Int(_) => format!("{}", si.to_int(sz)),
                    _ => format!("{}", si.to_uint(sz)),
                };
                let (file, l0, _) = self.loc(tcx.def_span(did));
                let _ = write!(
                    out,
                    "{{\"k\":\"const\",\"id\":{},\"ty\":{},\"v\":{},\"file\":{},\"line\":{}}}\n",
                    esc(&self.path(did)),
                    esc(&self.ty(t)),
                    vs,
                    esc(&file),
                    l0
                );
            }
        }
    }
}

struct Cb;
impl rustc_driver::Callbacks for Cb {
    fn after_analysis<'tcx>(&mut self, _c: &Compiler, tcx: TyCtxt<'tcx>) -> Compilation {
        let outdir = match std::env::var("AXFACTS_OUT") {
            Ok(d) => d,
            Err(_) => return Compilation::Continue,
        };
        let only = std::env::var("AXFACTS_CRATES").unwrap_or_default();
        let krate = tcx.crate_name(LOCAL_CRATE).to_string();
        if !only.is_empty() && !only.split(',').any(|c| c == krate) {
            return Compilation::Continue;
        }
        let ctypes: Vec<String> =
            tcx.crate_types().iter().map(|t| format!("{:?}", t).to_lowercase()).collect();
        let cx = Cx { tcx };
        let mut out = String::with_capacity(64 << 20);
        let mut nfn = 0usize;
        for ldid in tcx.mir_keys(()) {
            let did = ldid.to_def_id();
            let kind = tcx.def_kind(did);
            if !matches!(kind, DefKind::Fn | DefKind::AssocFn | DefKind::Closure) {
                continue;
            }
            if !tcx.is_mir_available(did) {
                continue;
            }
            // const fns and ordinary fns alike
            cx.body(did, &mut out);
            nfn += 1;
        }
        cx.adts_impls_consts(&mut out);
        let _ = write!(
            out,
            "{{\"k\":\"meta\",\"crate\":{},\"crate_types\":{},\"bodies\":{}}}\n",
            esc(&krate),
            esc(&ctypes.join(",")),
            nfn
        );
        let path = format!("{}/{}.jsonl", outdir, krate);
        std::fs::write(&path, out).expect("axfacts: cannot write facts");
        eprintln!("axfacts: {} bodies -> {}", nfn, path);
        Compilation::Continue
    }
}

fn main() {
    let mut args: Vec<String> = std::env::args().collect();
    // RUSTC_WORKSPACE_WRAPPER: argv[1] is the path of the real rustc
    if args.len() > 1 && (args[1].ends_with("rustc") || args[1].contains("/rustc")) {
        args.remove(1);
    }
    rustc_driver::run_compiler(&args, &mut Cb);
}
