"""axv core: loads axfacts JSONL, builds the program model (functions, CFGs,
call graph with CHA and closure passing) and offers the graph queries the rule
families of DESIGN.md section 4 are written in.

Nothing in here looks at source text. File/line numbers are carried only so
that a report can point at the construct.
"""
import json, os, re, sys, collections, hashlib, subprocess, time, fcntl

VERIF = os.path.dirname(os.path.dirname(os.path.abspath(__file__)))
REPO = os.environ.get("AXV_REPO", "/repo")

# ----------------------------------------------------------------------------
# facts cache
# ----------------------------------------------------------------------------

def repo_hash(repo=REPO):
    h = hashlib.sha256()
    paths = []
    for root in ("crates",):
        for d, dirs, files in os.walk(os.path.join(repo, root)):
            dirs[:] = sorted(x for x in dirs if x != "target")
            for f in sorted(files):
                paths.append(os.path.join(d, f))
    for f in ("Cargo.toml", "Cargo.lock", "rust-toolchain.toml"):
        paths.append(os.path.join(repo, f))
    for p in sorted(paths):
        h.update(os.path.relpath(p, repo).encode())
        try:
            with open(p, "rb") as fh:
                h.update(hashlib.sha256(fh.read()).digest())
        except OSError:
            h.update(b"<missing>")
    drv = os.path.join(VERIF, "axfacts", "src", "main.rs")
    with open(drv, "rb") as fh:
        h.update(hashlib.sha256(fh.read()).digest())
    return h.hexdigest()[:24]


def facts_dir(features="", repo=REPO):
    """Returns the directory holding the facts of the *current* working tree of
    repo (extracting them when the cache has no entry for this content hash)."""
    hh = repo_hash(repo)
    base = os.path.join(VERIF, ".cache", "facts")
    os.makedirs(base, exist_ok=True)
    d = os.path.join(base, hh + ("-" + features if features else ""))
    ok = os.path.join(d, ".complete")
    if os.path.exists(ok):
        try:
            os.utime(d, None)       # mark as recently used (pruning spares recent entries)
        except OSError:
            pass
        return d, True
    # one extraction at a time per cargo target directory (cargo would serialise them anyway); runs that were given
    # their own AXV_TARGET_DIR extract in parallel
    tgt = os.environ.get("AXV_TARGET_DIR", "")
    lock = open(os.path.join(base, ".lock" + ("-" + hashlib.sha1(tgt.encode()).hexdigest()[:10] if tgt else "")), "w")
    fcntl.flock(lock, fcntl.LOCK_EX)
    try:
        if os.path.exists(ok):
            return d, True
        t0 = time.time()
        tmp = d + ".tmp%d" % os.getpid()
        subprocess.run(["rm", "-rf", tmp])
        r = subprocess.run([os.path.join(VERIF, "tools", "extract.sh"), repo, tmp, features],
                           stdout=subprocess.PIPE, stderr=subprocess.STDOUT, text=True)
        if r.returncode != 0:
            subprocess.run(["rm", "-rf", tmp])
            raise ExtractionFailed(r.stdout[-2000:])
        if os.path.exists(ok):
            # another run (with its own target directory) extracted the same tree meanwhile: keep its entry
            subprocess.run(["rm", "-rf", tmp])
            return d, True
        subprocess.run(["rm", "-rf", d])
        try:
            os.rename(tmp, d)
        except OSError:
            if os.path.exists(ok):
                subprocess.run(["rm", "-rf", tmp])
                return d, True
            raise
        open(ok, "w").write("%.1f" % (time.time() - t0))
        # keep the cache small: drop entries unused for an hour beyond the 8 newest (another check
        # process may be reading a recent one)
        now = time.time()

        def mtime(e):
            try:
                return os.path.getmtime(os.path.join(base, e))
            except OSError:
                return now          # removed meanwhile by another run's pruning
        ents = sorted((e for e in os.listdir(base) if not e.startswith(".")), key=mtime)
        for e in ents[:-8]:
            if now - mtime(e) > 3600:
                subprocess.run(["rm", "-rf", os.path.join(base, e)])
        return d, False
    finally:
        fcntl.flock(lock, fcntl.LOCK_UN)


class ExtractionFailed(Exception):
    pass

# ----------------------------------------------------------------------------
# program model
# ----------------------------------------------------------------------------

STD_TRY_BRANCH = "std::ops::Try::branch"
FROM_RESIDUAL = "std::ops::FromResidual::from_residual"

PANIC_FNS = (
    "core::panicking::panic", "core::panicking::panic_fmt", "std::rt::begin_panic",
    "core::panicking::panic_nounwind", "core::panicking::unreachable_display",
    "core::panicking::panic_explicit", "core::panicking::assert_failed",
    "core::panicking::panic_display", "std::rt::panic_fmt",
    "core::option::unwrap_failed", "core::option::expect_failed",
    "core::result::unwrap_failed", "core::panicking::panic_in_cleanup",
    "core::panicking::panic_bounds_check", "core::panicking::panic_const",
    "std::process::abort",
)


def is_panic_fn(name):
    if not name:
        return False
    n = name.replace("std::panicking", "core::panicking")
    return n.startswith("core::panicking::") or n in PANIC_FNS or n.startswith("std::rt::begin_panic") \
        or n in ("std::rt::panic_fmt",)


# Functions that execute their closure argument before returning successfully although the
# call happens on another thread (the job is boxed, queued, run by a pool worker and the
# submitter blocks on the result channel) - not derivable from the MIR of the function itself.
RUNNERS = {
    "multithreading::runner::SharedTaskRunner::run":
        "sends the task to the pool and blocks on rx.recv(); Ok only if the task returned Ok",
    "multithreading::runner::SharedTaskRunner::run_with_result":
        "sends the task to the pool and blocks on rx.recv(); Ok only if the task returned Ok",
}


class Call:
    __slots__ = ("fn", "bb", "term", "callee", "defn", "gargs", "rgargs", "trait", "line", "ind", "rkind")

    def __init__(self, fn, bb, term):
        self.fn = fn
        self.bb = bb
        self.term = term
        f = term["fn"]
        self.ind = bool(f.get("ind"))
        self.defn = f.get("def") or ""
        self.callee = f.get("res") or f.get("def") or "<indirect>"     # a call through a fn pointer / `impl Fn` value has no callee path
        self.gargs = f.get("gargs", [])
        self.rgargs = f.get("rgargs", self.gargs)
        self.trait = f.get("trait")
        self.rkind = f.get("rkind")
        self.line = term.get("l", 0)

    @property
    def args(self):
        return self.term["args"]

    @property
    def dst(self):
        return self.term["dst"]

    def where(self):
        return "%s:%d" % (self.fn.file, self.line)

    def __repr__(self):
        return "<call %s -> %s @%s>" % (self.fn.id, self.callee, self.where())


def op_local(o):
    """base local of an operand (None for constants)"""
    if "c" in o:
        return o["c"][0]
    if "m" in o:
        return o["m"][0]
    return None


def op_place(o):
    if "c" in o:
        return o["c"]
    if "m" in o:
        return o["m"]
    return None


def op_const(o):
    return o.get("k")


def const_value(prog, k):
    """integer value of a constant operand: literal, or a named const item resolved through the const facts"""
    if not k:
        return None
    if "v" in k:
        return k["v"]
    cd = k.get("cdef")
    if cd:
        c = prog.consts.get(cd)
        if c is not None:
            return c["v"]
    return None


class Fn:
    def __init__(self, rec, crate):
        self.rec = rec
        self.id = rec["id"]
        self.crate = crate
        self.kind = rec["kind"]
        self.file = rec["file"]
        self.line = rec["line"]
        self.end_line = rec["end_line"]
        self.name = rec.get("name")
        self.blocks = rec["blocks"]
        self.locals = rec["locals"]
        self.nargs = rec["nargs"]
        self.names = rec["names"]
        self.root = rec.get("root")
        self.parent = rec.get("parent")
        self.impl_trait = rec.get("impl_trait")
        self.impl_adt = rec.get("impl_adt")
        self.impl_self = rec.get("impl_self")
        self._calls = None
        self._succ = None
        self._pred = None
        self._closure_locals = None
        self._err_blocks = None
        self._deps = None

    def where(self):
        return "%s:%d" % (self.file, self.line)

    # ---- CFG ---------------------------------------------------------------
    def term(self, b):
        return self.blocks[b]["term"]

    def succ(self, b, unwind=False):
        t = self.blocks[b]["term"]
        k = t["t"]
        out = []
        if k == "goto":
            out = [t["to"]]
        elif k == "switch":
            out = [x[1] for x in t["targets"]] + [t["otherwise"]]
        elif k in ("call", "drop", "assert"):
            if t.get("to") is not None:
                out = [t["to"]]
            if unwind and t.get("unwind") is not None:
                out = out + [t["unwind"]]
        elif k == "other":
            out = list(t.get("succ", []))
        return out

    def succ_threaded(self, b):
        """successors with constant jump threading: when block b ends in `goto S`, S has no
        statements and switches on a local that b assigns a constant to, only the matching target
        is taken (this is what `matches!(..)` and short-circuit booleans compile to)."""
        t = self.blocks[b]["term"]
        if t["t"] == "switch":
            # the scrutinee is assigned a constant in this very block (`if x && false`)
            l = op_local(t["o"])
            val = None
            for s in self.blocks[b]["stmts"]:
                if s["dst"] == [l]:
                    k = op_const(s["rv"]["o"][0]) if s["rv"].get("r") == "use" else None
                    val = k.get("v") if (k and "v" in k) else None
            if val is not None:
                for v, tgt in t["targets"]:
                    if v == val:
                        return [tgt]
                return [t["otherwise"]]
        if t["t"] == "goto":
            S = t["to"]
            sb = self.blocks[S]
            st = sb["term"]
            if st["t"] == "switch" and not sb["stmts"]:
                l = op_local(st["o"])
                val = None
                for s in self.blocks[b]["stmts"]:
                    if s["dst"] == [l]:
                        k = None
                        if s["rv"].get("r") == "use":
                            k = op_const(s["rv"]["o"][0])
                        val = k.get("v") if (k and "v" in k) else None
                if val is not None:
                    for v, tgt in st["targets"]:
                        if v == val:
                            return [S] if False else [("thread", S, tgt)]
                    return [("thread", S, st["otherwise"])]
        return self.succ(b)

    def reachable_threaded(self, start, blocked=()):
        """like reachable(), with constant jump threading across empty switch blocks"""
        if isinstance(start, int):
            start = [start]
        seen = set()
        st = [s for s in start if s not in blocked]
        while st:
            b = st.pop()
            if b in seen:
                continue
            seen.add(b)
            for s in self.succ_threaded(b):
                if isinstance(s, tuple):
                    _, via, tgt = s
                    if via in blocked or tgt in blocked:
                        continue
                    if tgt not in seen:
                        st.append(tgt)
                    continue
                if s in blocked or s in seen:
                    continue
                st.append(s)
        return seen

    def _bool_root(self, bi, l):
        """the user-level bool local a switch operand is a copy of (MIR tests `if x` as `_t = copy x; switchInt(move _t)`)"""
        for _ in range(3):
            nxt = None
            for st in self.blocks[bi]["stmts"]:
                if st["dst"] == [l] and st["rv"].get("r") == "use":
                    pl = st["rv"]["o"][0].get("c") or st["rv"]["o"][0].get("m")
                    if pl and len(pl) == 1:
                        nxt = pl[0]
            if nxt is None:
                return l
            l = nxt
        return l

    def correlated_path(self, start, kill, goal, via=None, skip_cleanup=True):
        """Is there a CFG path from block `start` to a block in `goal` that avoids the blocks in `kill` (and, if
        `via` is given, passes a block of `via`), when two tests of the *same, unmodified* bool local are required
        to agree (the only path-sensitivity: `if c {a}` ... `if x || c {b}` correlates a with b)?
        Returns the path (list of blocks) or None. Facts about a local die when the local is assigned."""
        kill, goal = set(kill), set(goal)
        via = set(via) if via is not None else None
        assigned = {}
        for bi, b in enumerate(self.blocks):
            ds = {st["dst"][0] for st in b["stmts"]}
            t = b["term"]
            if t["t"] == "call" and t.get("dst"):
                ds.add(t["dst"][0])
            assigned[bi] = ds
        start_state = (start, frozenset(), via is None or start in via)
        seen = {start_state}
        work = [(start_state, [start])]
        while work:
            (b, facts, passed), path = work.pop()
            if b in kill:
                continue
            if b in goal and passed:
                return path
            blk = self.blocks[b]
            t = blk["term"]
            fd = dict(facts)
            for st in blk["stmts"]:
                if len(st["dst"]) != 1:
                    continue
                d_ = st["dst"][0]
                rv = st["rv"]
                val = None
                if rv.get("r") == "use" and rv["o"]:
                    o = rv["o"][0]
                    k = o.get("k")
                    if k is not None and k.get("ty") == "bool" and k.get("v") in (0, 1):
                        val = k["v"]
                    else:
                        pl = o.get("c") or o.get("m")
                        if pl and len(pl) == 1 and pl[0] in fd:
                            val = fd[pl[0]]
                elif rv.get("r") == "un" and rv.get("op") == "Not" and rv["o"]:
                    pl = rv["o"][0].get("c") or rv["o"][0].get("m")
                    if pl and len(pl) == 1 and pl[0] in fd:
                        val = 1 - fd[pl[0]]
                if val is None:
                    fd.pop(d_, None)
                else:
                    fd[d_] = val
            if t["t"] == "call" and t.get("dst"):
                fd.pop(t["dst"][0], None)
            facts = frozenset(fd.items())
            nxt = []
            if t["t"] == "switch" and t.get("ty") == "bool" and op_local(t["o"]) is not None:
                root = self._bool_root(b, op_local(t["o"]))
                known = dict(facts).get(root)
                zero = [tg for v, tg in t["targets"] if v == 0]
                edges = [(0, zero[0])] if zero else []
                edges.append((1, t["otherwise"]))
                for v, tg in edges:
                    if known is not None and known != v:
                        continue
                    nxt.append((tg, frozenset(set(facts) | {(root, v)})))
            else:
                for sx in self.succ(b):
                    nxt.append((sx, facts))
            for sx, fx in nxt:
                if sx is None or (skip_cleanup and self.blocks[sx]["cleanup"]):
                    continue
                stt = (sx, fx, passed or (via is not None and sx in via))
                if stt not in seen:
                    seen.add(stt)
                    work.append((stt, path + [sx]))
        return None

    def preds(self):
        if self._pred is None:
            p = collections.defaultdict(list)
            for b in range(len(self.blocks)):
                for s in self.succ(b):
                    p[s].append(b)
            self._pred = p
        return self._pred

    def calls(self):
        if self._calls is None:
            self._calls = [Call(self, i, b["term"]) for i, b in enumerate(self.blocks)
                           if b["term"]["t"] == "call"]
        return self._calls

    def call_at(self, b):
        t = self.blocks[b]["term"]
        return Call(self, b, t) if t["t"] == "call" else None

    def returns(self):
        return [i for i, b in enumerate(self.blocks) if b["term"]["t"] == "ret"]

    def dominates(self, a, b):
        """block a dominates block b"""
        while b is not None:
            if a == b:
                return True
            b = self.blocks[b]["idom"]
        return False

    def reachable(self, start, blocked=(), unwind=False, edge_filter=None):
        """blocks reachable from start (iterable or int) without entering `blocked`"""
        if isinstance(start, int):
            start = [start]
        seen = set()
        st = [s for s in start if s not in blocked]
        while st:
            b = st.pop()
            if b in seen:
                continue
            seen.add(b)
            for s in self.succ(b, unwind):
                if s in blocked or s in seen:
                    continue
                if edge_filter and not edge_filter(b, s):
                    continue
                st.append(s)
        return seen

    # ---- error paths ---------------------------------------------------------
    def err_blocks(self):
        """Blocks that lie on an error-return path: a block is an *error block*
        when it calls FromResidual::from_residual, or assigns an `Err(..)`
        aggregate to the return place / to a local that is then moved to the
        return place, and every block from which only such blocks can reach
        `ret`. (DESIGN 3.3)"""
        if self._err_blocks is not None:
            return self._err_blocks
        seeds = set()
        ret_ty = self.locals[0] if self.locals else ""
        for i, b in enumerate(self.blocks):
            t = b["term"]
            if t["t"] == "call":
                c = t["fn"]
                if c.get("def") == FROM_RESIDUAL:
                    seeds.add(i)
            for s in b["stmts"]:
                rv = s["rv"]
                if rv.get("r") == "agg" and rv.get("variant") == "Err" and rv.get("adt") == "std::result::Result":
                    if s["dst"][0] == 0 and len(s["dst"]) == 1:
                        seeds.add(i)
        # a block all of whose paths to `ret` go through seeds is also err; we only
        # need: success path = path to ret avoiding seeds.
        self._err_blocks = seeds
        return seeds

    def success_reach(self, start, blocked=()):
        """blocks reachable from `start` on success paths (no unwind edge, no error block)"""
        bl = set(blocked) | self.err_blocks()
        return self.reachable(start, blocked=bl)

    def success_returns_from(self, start, blocked=()):
        r = self.success_reach(start, blocked)
        return [b for b in self.returns() if b in r]

    # ---- closures ------------------------------------------------------------
    def closure_locals(self):
        """local -> set(closure def ids) flowing into it (flow-insensitive)"""
        if self._closure_locals is not None:
            return self._closure_locals
        m = collections.defaultdict(set)
        changed = True
        # seed
        for b in self.blocks:
            for s in b["stmts"]:
                rv = s["rv"]
                if rv.get("r") == "agg" and rv.get("akind") == "closure":
                    m[s["dst"][0]].add(rv["def"])
        for _ in range(6):
            changed = False
            for b in self.blocks:
                for s in b["stmts"]:
                    rv = s["rv"]
                    srcs = []
                    if rv.get("r") in ("use", "cast", "agg", "repeat"):
                        srcs = [op_local(o) for o in rv.get("o", [])]
                    elif rv.get("r") in ("ref", "rawptr"):
                        srcs = [rv["p"][0]]
                    # fn items used as values
                    for o in rv.get("o", []) if isinstance(rv.get("o"), list) else []:
                        k = op_const(o)
                        if k and k.get("fn"):
                            tgt = k.get("res") or k["fn"]
                            if tgt not in m[s["dst"][0]]:
                                m[s["dst"][0]].add(tgt)
                                changed = True
                    for l in srcs:
                        if l is not None and m.get(l):
                            d = s["dst"][0]
                            if not m[l] <= m[d]:
                                m[d] |= m[l]
                                changed = True
            if not changed:
                break
        self._closure_locals = m
        return m

    # ---- def-use (flow-insensitive dependence between locals) -----------------
    def deps(self):
        """node -> set(nodes it may be computed from). A node is a local (int) or, for locals
        built as a tuple aggregate, one of its fields ("<local>.<idx>") — so that the bindings of
        `match (a, b, c) { (Some(x), None, ..) => .. }` depend on their own component only.
        Calls: dst depends on all args; a `&mut` argument place depends on the other args."""
        if self._deps is not None:
            return self._deps
        d = collections.defaultdict(set)
        tuples = set()
        for b in self.blocks:
            for s in b["stmts"]:
                if s["rv"].get("r") == "agg" and s["rv"].get("akind") == "tuple" and len(s["dst"]) == 1:
                    tuples.add(s["dst"][0])

        def node(place):
            if place is None:
                return None
            if len(place) >= 2 and place[0] in tuples and isinstance(place[1], str) and re.fullmatch(r"\.\d+", place[1]):
                return "%d%s" % (place[0], place[1])
            return place[0]

        self._node = node
        for b in self.blocks:
            for s in b["stmts"]:
                rv = s["rv"]
                dst = node(s["dst"])
                if isinstance(dst, str):
                    d[s["dst"][0]].add(dst)
                if rv.get("r") in ("ref", "rawptr", "discr"):
                    d[dst].add(node(rv["p"]))
                    if rv.get("r") != "discr" and rv.get("mut"):
                        d[node(rv["p"])].add(dst)  # writes through the ref reach the place
                ops = rv.get("o", []) if isinstance(rv.get("o"), list) else []
                if rv.get("r") == "agg" and rv.get("akind") == "tuple" and len(s["dst"]) == 1:
                    for i, o in enumerate(ops):
                        n = node(op_place(o))
                        if n is not None:
                            d["%d.%d" % (s["dst"][0], i)].add(n)
                            d[s["dst"][0]].add("%d.%d" % (s["dst"][0], i))
                else:
                    for o in ops:
                        n = node(op_place(o))
                        if n is not None:
                            d[dst].add(n)
                for pe in s["dst"][1:]:
                    if isinstance(pe, str) and pe.startswith("[_"):
                        d[dst].add(int(pe[2:-1]))
            t = b["term"]
            if t["t"] == "call":
                dst = node(t["dst"])
                al = [node(op_place(o)) for o in t["args"]]
                al = [a for a in al if a is not None]
                for a in al:
                    d[dst].add(a)
                for a in al:
                    base = a if isinstance(a, int) else int(a.split(".")[0])
                    ty = self.locals[base]
                    if ty.startswith("&mut "):
                        for a2 in al:
                            if a2 != a:
                                d[a].add(a2)
        self._deps = d
        return d

    def depends_on(self, local, sources, _seen=None):
        """does `local` (transitively) depend on any local in `sources`?"""
        d = self.deps()
        seen = set()
        st = [local]
        while st:
            x = st.pop()
            if x in sources:
                return True
            if x in seen:
                continue
            seen.add(x)
            st.extend(d.get(x, ()))
        return False

    def dep_closure(self, local):
        d = self.deps()
        seen = set()
        st = [local]
        while st:
            x = st.pop()
            if x in seen:
                continue
            seen.add(x)
            st.extend(d.get(x, ()))
        return seen

    PASS_THROUGH = ("clone", "value", "into", "from", "deref", "deref_mut", "as_ref", "borrow", "to_owned", "unwrap", "expect", "copied", "cloned", "branch")

    def provenance_locals(self, local, depth=12):
        """the locals the value in `local` flows from through copies, references, casts and pass-through adaptors"""
        seen = set()
        self.nearest_calls(local, depth, seen)
        return seen

    def nearest_calls(self, local, depth=12, seen=None):
        """the calls that *produce* the value in `local`: follow copies/moves/casts/refs backwards; stop at
        call results (going through pure pass-through adaptors such as clone()/value()/into()); parameters
        are reported as ("param", n). Far more precise than dep_closure for provenance questions."""
        out, seen = set(), (set() if seen is None else seen)
        work = [(local, 0)]
        defs = collections.defaultdict(list)
        for b in self.blocks:
            for s in b["stmts"]:
                if len(s["dst"]) == 1:
                    defs[s["dst"][0]].append(("stmt", s))
            t = b["term"]
            if t["t"] == "call" and len(t["dst"]) == 1:
                defs[t["dst"][0]].append(("call", t))
        while work:
            l, d = work.pop()
            if l in seen or l is None or d > depth:
                continue
            seen.add(l)
            if 1 <= l <= self.nargs and not defs.get(l):
                out.add(("param", l))
                continue
            for kind, x in defs.get(l, ()):
                if kind == "stmt":
                    rv = x["rv"]
                    if rv.get("r") in ("use", "cast", "un"):
                        for o in rv["o"]:
                            if op_local(o) is not None:
                                work.append((op_local(o), d + 1))
                            elif op_const(o) is not None:
                                out.add(("const", str(op_const(o).get("v"))))
                    elif rv.get("r") in ("ref", "rawptr", "discr"):
                        work.append((rv["p"][0], d + 1))
                    elif rv.get("r") == "bin":
                        for o in rv["o"]:
                            if op_local(o) is not None:
                                work.append((op_local(o), d + 1))
                    elif rv.get("r") == "agg":
                        for o in rv["o"]:
                            if op_local(o) is not None:
                                work.append((op_local(o), d + 1))
                else:
                    callee = x["fn"].get("res") or x["fn"].get("def") or "?"
                    short = callee.rsplit("::", 1)[-1]
                    if (short in self.PASS_THROUGH or (short == "filter" and callee.startswith("std::option::Option"))) and x["args"]:
                        # Option::filter hands back its receiver or None: the value, if any, is the receiver's
                        a = op_local(x["args"][0])
                        if a is not None:
                            work.append((a, d + 1))
                            continue
                    out.add(("call", callee))
        return out

    def origins_precise(self, local, pend=(), limit=400):
        """what the value `local.pend` is, component-wise: the set of ("call", bb) / ("param", n) / ("const", v) it is copied
        from, following moves, references, aggregates and projections field by field (a tuple built from two call results
        and taken apart again gives each binding its own call), through `?`, unwrap and the conversion adaptors. Where a
        step cannot be matched field by field all operands are followed (never fewer origins than the plain walk)."""
        sdefs, cdefs = collections.defaultdict(list), collections.defaultdict(list)
        for bi, b in enumerate(self.blocks):
            for s in b["stmts"]:
                sdefs[s["dst"][0]].append(s)
            t = b["term"]
            if t["t"] == "call" and t.get("dst"):
                cdefs[t["dst"][0]].append((bi, t))

        def norm(projs):
            out = []
            for pe in projs:
                if pe == "*":
                    continue
                if isinstance(pe, str) and (pe.startswith(".") or pe.startswith("@")):
                    out.append(pe.split(":")[0])
                else:
                    out.append(str(pe))
            return tuple(out)

        def wrap(l):
            ty = self.locals[l] if l < len(self.locals) else ""
            ty = ty.lstrip("&").replace("mut ", "").strip()
            if ty.startswith("std::result::Result"):
                return ("@Ok", ".0")
            if ty.startswith("std::option::Option"):
                return ("@Some", ".0")
            return None
        out, seen = set(), set()
        work = [(local, tuple(pend))]
        while work and len(seen) < limit:
            l, pd = work.pop()
            if (l, pd) in seen or l is None:
                continue
            seen.add((l, pd))
            if not sdefs.get(l) and not cdefs.get(l):
                if 1 <= l <= self.nargs:
                    out.add(("param", l))
                continue

            def operand(o, rest):
                if op_local(o) is not None:
                    pl = o.get("c") or o.get("m")
                    work.append((pl[0], norm(pl[1:]) + tuple(rest)))
                elif op_const(o) is not None and not rest:
                    out.add(("const", op_const(o).get("v")))
            for s in sdefs.get(l, ()):
                dp = norm(s["dst"][1:])
                if dp:
                    if pd[:len(dp)] == dp:
                        rest = pd[len(dp):]
                    elif not pd:
                        rest = ()
                    else:
                        continue
                else:
                    rest = pd
                rv = s["rv"]
                r = rv.get("r")
                ops = rv.get("o") if isinstance(rv.get("o"), list) else []
                if r in ("use", "cast"):
                    for o in ops:
                        operand(o, rest)
                elif r in ("ref", "rawptr"):
                    work.append((rv["p"][0], norm(rv["p"][1:]) + tuple(rest)))
                elif r == "agg":
                    fields = rv.get("fields")
                    if rv.get("akind") == "tuple" or rv.get("akind") == "closure" or fields is None:
                        if rest and re.fullmatch(r"\.\d+", rest[0]) and int(rest[0][1:]) < len(ops):
                            operand(ops[int(rest[0][1:])], rest[1:])
                        else:
                            for o in ops:
                                operand(o, ())
                    else:
                        var = rv.get("variant")
                        rr = rest
                        if rr and rr[0].startswith("@"):
                            if var is not None and rr[0][1:] != var:
                                continue          # a different variant: this definition is not the one projected
                            rr = rr[1:]
                        if rr and rr[0].startswith(".") and rr[0][1:] in fields:
                            operand(ops[fields.index(rr[0][1:])], rr[1:])
                        else:
                            for o in ops:
                                operand(o, ())
                elif r == "discr":
                    work.append((rv["p"][0], ()))
                else:
                    for o in ops:
                        operand(o, ())
            for bi, t in cdefs.get(l, ()):
                callee = t["fn"].get("res") or t["fn"].get("def") or "?"
                short = callee.rsplit("::", 1)[-1]
                a0 = t["args"][0] if t["args"] else None
                if a0 is not None and op_local(a0) is not None and not t.get("inlined") and \
                        (short in self.PASS_THROUGH or (short == "filter" and callee.startswith("std::option::Option"))):
                    pl = a0.get("c") or a0.get("m")
                    base = norm(pl[1:])
                    if short == "branch":
                        if pd[:1] == ("@Break",):
                            continue
                        w = wrap(pl[0]) if not base else None
                        if pd[:2] == ("@Continue", ".0") and w:
                            work.append((pl[0], base + w + pd[2:]))
                        else:
                            work.append((pl[0], base))
                    elif short in ("unwrap", "expect"):
                        w = wrap(pl[0]) if not base else None
                        work.append((pl[0], base + (w + pd if w else ())))
                    else:
                        work.append((pl[0], base + pd))
                    continue
                if t.get("inlined"):
                    continue                      # the body's own result reaches the destination through the copy block
                if short == "from_residual" and pd[:1] in (("@Ok",), ("@Some",), ("@Continue",)):
                    continue                      # `?` hands on the error: never the success payload asked for
                out.add(("call", bi))
        return out

    def named_locals(self, name):
        """locals bound to a user variable called `name` (any scope)"""
        out = []
        for k, p in self.names.items():
            if k.split("#")[0] == name:
                out.append(p)
        return out


class FnView:
    """mapping id -> Fn handed to the rules. With `inline_mode` off it is the plain dict; with it on, every lookup and
    every iteration yields the inlined view of the function (axvlib.inline), built lazily and cached."""

    def __init__(self, prog, raw):
        self.prog = prog
        self.raw = raw
        self.cache = {}

    def _v(self, f):
        if f is None or not self.prog.inline_mode:
            return f
        v = self.cache.get(f.id, 0)
        if v == 0:
            from . import inline
            try:
                v = inline.inlined_view(self.prog, f)
            except Exception:
                v = None
            self.cache[f.id] = v
        return v or f

    def __getitem__(self, k):
        return self._v(self.raw[k])

    def view(self, k):
        """the function (its inlined view when the inlined evaluation is on) without recording it as looked up by a rule:
        for iterations over everything"""
        return self._v(self.raw[k])

    def get(self, k, d=None):
        f = self.raw.get(k)
        return self._v(f) if f is not None else d

    def __contains__(self, k):
        return k in self.raw

    def __iter__(self):
        return iter(self.raw)

    def __len__(self):
        return len(self.raw)

    def keys(self):
        return self.raw.keys()

    # iteration (census-style rules) always sees the plain functions: a statement is counted once, where it stands
    def values(self):
        return self.raw.values()

    def items(self):
        return self.raw.items()


class Program:
    def __init__(self, fdir):
        self.fdir = fdir
        self.fns = {}
        self.adts = {}
        self.impls = []
        self.traits = {}
        self.consts = {}
        self.meta = {}
        self._load(os.path.join(fdir, "axmosdb.jsonl"), "axmosdb", "")
        for extra in ("axmos_server", "axmos_client"):
            p = os.path.join(fdir, extra + ".jsonl")
            if os.path.exists(p):
                self._load(p, extra, extra + "::")
            elif extra == "axmos_server":
                raise ExtractionFailed("facts of the server binary are missing in %s" % fdir)
        self._resolve_named_consts()
        self.inline_mode = False
        self.raw_fns = self.fns
        self.requested = set()
        self.recording = False
        self.fns = FnView(self, self.raw_fns)
        self._callers = None
        self._edges = None
        self._trait_impl_methods = None
        self.closure_children = collections.defaultdict(list)
        for f in self.fns.values():
            if f.kind == "closure" and f.parent:
                self.closure_children[f.parent].append(f.id)

    def _load(self, path, crate, prefix):
        with open(path) as fh:
            raw = fh.read()
        if prefix:
            # the binaries name the library's items with the crate prefix; drop it so
            # that ids agree with the library's own facts
            raw = raw.replace("axmosdb::", "")
        local_ids = set()
        recs = []
        for line in raw.splitlines():
            if not line:
                continue
            r = json.loads(line)
            recs.append(r)
            if prefix and r["k"] == "fn":
                local_ids.add(r["id"])
        for r in recs:
            k = r["k"]
            if k == "fn":
                if prefix:
                    r["id"] = prefix + r["id"]
                    for key in ("root", "parent"):
                        if r.get(key):
                            r[key] = prefix + r[key]
                    for b in r["blocks"]:
                        t = b["term"]
                        if t["t"] == "call" and not t["fn"].get("ind"):
                            f = t["fn"]
                            if f.get("def") in local_ids:
                                f["def"] = prefix + f["def"]
                            if f.get("res") in local_ids:
                                f["res"] = prefix + f["res"]
                        for s in b["stmts"]:
                            rv = s["rv"]
                            if rv.get("akind") == "closure" and rv.get("def") in local_ids:
                                rv["def"] = prefix + rv["def"]
                self.fns[r["id"]] = Fn(r, crate)
            elif k == "adt":
                self.adts[(prefix + r["id"]) if prefix else r["id"]] = r
            elif k == "impl":
                r["crate"] = crate
                self.impls.append(r)
            elif k == "trait":
                self.traits[(prefix + r["id"]) if prefix else r["id"]] = r
            elif k == "const":
                self.consts[(prefix + r["id"]) if prefix else r["id"]] = r
            elif k == "meta":
                self.meta[crate] = r

    def _resolve_named_consts(self):
        """`buf.push(OP_PING)` and `buf.push(0x07)` must look the same to the rules: give every operand
        that names an integer const item the item's evaluated value (the name is kept)"""
        vals = {k: c["v"] for k, c in self.consts.items() if not isinstance(c["v"], list)}

        def fix(o):
            k = o.get("k") if isinstance(o, dict) else None
            if k and "v" not in k and k.get("cdef") in vals:
                k["v"] = vals[k["cdef"]]
        for f in self.fns.values():
            for b in f.blocks:
                for s in b["stmts"]:
                    ops = s["rv"].get("o")
                    if isinstance(ops, list):
                        for o in ops:
                            fix(o)
                t = b["term"]
                for key in ("args", "mo"):
                    for o in t.get(key, ()) or ():
                        fix(o)
                if isinstance(t.get("o"), dict):
                    fix(t["o"])

    # ---- lookup ---------------------------------------------------------------
    def fn(self, fid):
        """the function a rule is about, by id. On the plain evaluation the lookup is recorded: such a function is part of
        this run's vocabulary and is not dissolved into its callers on the inlined views (inline.is_atom)"""
        f = self.fns.get(fid)
        if f is None:
            raise AnchorMissing("function `%s` not found" % fid)
        if not self.inline_mode and self.recording:
            self.requested.add(fid)
        return f

    def where_of(self, fid):
        """source position of a function, for reports (not a lookup of the rule's subject: leaves no trace in `requested`)"""
        f = self.raw_fns.get(fid)
        return f.where() if f is not None else ""

    def method(self, adt, name, trait=None):
        """the inherent (or trait) method `name` of type `adt` — independent of how generics print"""
        c = [f for f in self.fns.values() if f.impl_adt == adt and f.name == name and f.kind == "assoc"
             and (f.impl_trait == trait)]
        if len(c) != 1:
            raise AnchorMissing("method `%s` of `%s`%s: %d candidates" % (name, adt, " as " + trait if trait else "", len(c)))
        if not self.inline_mode and self.recording:
            self.requested.add(c[0].id)
        return self.fns[c[0].id]        # a lookup by name: the inlined view when the inlined evaluation is on

    def find_fns(self, pattern):
        rx = re.compile(pattern)
        hits = [k for k, f in sorted(self.fns.items()) if rx.search(k)]
        if not self.inline_mode and self.recording:
            self.requested.update(hits)
        return [self.fns[k] for k in hits]     # lookups by name: inlined views when on

    def methods_of(self, adt):
        return [f for f in self.fns.values() if f.impl_adt == adt and f.kind == "assoc"]

    def enum_variants(self, adt):
        a = self.adts.get(adt)
        if a is None:
            raise AnchorMissing("type `%s` not found" % adt)
        return a["variants"]

    def const(self, cid):
        c = self.consts.get(cid)
        if c is None:
            raise AnchorMissing("const `%s` not found" % cid)
        return c["v"]

    def trait_impls(self, trait):
        return [i for i in self.impls if i.get("trait") == trait]

    def impl_of(self, trait, adt):
        for i in self.impls:
            if i.get("trait") == trait and i.get("adt") == adt:
                return i
        return None

    # ---- call graph -----------------------------------------------------------
    def trait_impl_methods(self):
        """(trait, method name) -> [impl method fn ids] + default method id"""
        if self._trait_impl_methods is None:
            m = collections.defaultdict(list)
            for i in self.impls:
                tr = i.get("trait")
                if not tr:
                    continue
                for it in i["items"]:
                    if it["kind"] == "AssocFn" and it["id"] in self.fns:
                        m[(tr, it["name"])].append(it["id"])
            for tid, t in self.traits.items():
                for it in t["items"]:
                    if it["id"] in self.fns:
                        m[(tid, it["name"])].append(it["id"])
            self._trait_impl_methods = m
        return self._trait_impl_methods

    def targets(self, call):
        """possible callee function ids of a call site (within the analysed
        crates: resolved callee, CHA closure for unresolved trait calls, closures
        and fn items passed as arguments)."""
        out = []
        if not call.ind:
            f = call.term["fn"]
            res = f.get("res")
            if res is not None and call.rkind != "virtual":
                out.append(res)
                # std blanket impls resolved inside generic code: `x.try_into()` ends in some TryFrom impl
                bl = {"<T as std::convert::TryInto<U>>::try_into": ("std::convert::TryFrom", "try_from"),
                      "<T as std::convert::Into<U>>::into": ("std::convert::From", "from")}.get(res)
                if bl:
                    out.extend(self.trait_impl_methods().get(bl, []))
            else:
                # unresolved (generic over a bound) or dyn: class hierarchy
                tr = f.get("trait")
                name = (f.get("def") or "").rsplit("::", 1)[-1]
                if tr:
                    out.extend(self.trait_impl_methods().get((tr, name), []))
                    # std blanket impls: x.try_into() is TryFrom::try_from, x.into() is From::from
                    blanket = {("std::convert::TryInto", "try_into"): ("std::convert::TryFrom", "try_from"),
                               ("std::convert::Into", "into"): ("std::convert::From", "from")}.get((tr, name))
                    if blanket:
                        out.extend(self.trait_impl_methods().get(blanket, []))
                if f.get("def"):
                    out.append(f["def"])
        # closures / fn items passed as arguments run (at the latest) in the callee
        cl = call.fn.closure_locals()
        for o in call.args:
            l = op_local(o)
            if l is not None and cl.get(l):
                out.extend(cl[l])
            k = op_const(o)
            if k and k.get("fn"):
                out.append(k.get("res") or k["fn"])
        if call.ind:
            l = op_local(call.term["fn"]["o"])
            if l is not None and cl.get(l):
                out.extend(cl[l])
        return out

    def edges(self):
        if self._edges is None:
            e = collections.defaultdict(set)
            for f in self.raw_fns.values():
                for c in f.calls():
                    for t in self.targets(c):
                        e[f.id].add(t)
                # a closure is (conservatively) callable from the function that builds it
                for cid in self.closure_children.get(f.id, ()):
                    e[f.id].add(cid)
            self._edges = e
        return self._edges

    def callers(self):
        if self._callers is None:
            c = collections.defaultdict(set)
            for a, bs in self.edges().items():
                for b in bs:
                    c[b].add(a)
            self._callers = c
        return self._callers

    def transparent(self, fid, _depth=0):
        """H is a transparent helper when every call of it is inlined into the caller's view (axvlib.inline): it has
        callers, all of them in its own source file and none of them H itself, it is not a closure, small enough, and
        is called directly. In inline mode the who-may-call rules attribute what H does to the functions that call it."""
        memo = self.__dict__.setdefault("_transparent", {})
        if fid in memo:
            return memo[fid]
        from . import inline
        h = self.raw_fns.get(fid)
        ok = False
        if h is not None and h.kind != "closure" and len(h.blocks) <= inline.MAX_CALLEE_BLOCKS and not inline.is_atom(self, h):
            sites = self.call_sites_into(fid)
            ok = bool(sites)
            for g, c in sites:
                if g.file != h.file or (g.root or g.id) == fid or c.ind or c.rkind == "virtual" or c.term["fn"].get("res") != fid:
                    ok = False
                    break
        memo[fid] = ok
        return ok

    def effective_callers(self, fid, allowed=None, _seen=None):
        """callers of fid; in inline mode a transparent helper that is not itself an allowed caller is replaced by its own
        (effective) callers, so that a who-may-call table judges the functions the helper was extracted from"""
        out = set()
        _seen = _seen or set()
        allowed = set(allowed) if allowed is not None else None
        for c in self.callers().get(fid, ()):
            root = (self.raw_fns[c].root or c) if c in self.raw_fns else c
            if allowed is not None and (c in allowed or root in allowed):
                out.add(c if c in allowed else root)      # a closure of an allowed caller is that caller
            elif self.inline_mode and c not in _seen and self.transparent(root) and len(_seen) < 6:
                out |= self.effective_callers(root, allowed, _seen | {c, root})
            else:
                out.add(c)
        return out

    def call_sites_of(self, pred):
        """all call sites whose target set contains a function satisfying pred
        (pred: callable on fn id, or a fn id string)"""
        if isinstance(pred, str):
            pid = pred
            pred = lambda x: x == pid
        out = []
        for f in self.raw_fns.values():
            for c in f.calls():
                if any(pred(t) for t in self.targets(c)):
                    out.append(c)
        return out

    def reach_forward(self, roots, stop=()):
        seen = set()
        st = list(roots)
        e = self.edges()
        while st:
            x = st.pop()
            if x in seen or x in stop:
                continue
            seen.add(x)
            st.extend(e.get(x, ()))
        return seen

    def reaches(self, a, targets, stop=()):
        """does function a reach (call, transitively) any function in targets"""
        if isinstance(targets, str):
            targets = {targets}
        return bool(self.reach_forward([a], stop) & set(targets))

    def path(self, a, targets, stop=()):
        """one call-graph path from a to a function in targets (for reports)"""
        if isinstance(targets, str):
            targets = {targets}
        prev = {a: None}
        dq = collections.deque([a])
        e = self.edges()
        while dq:
            x = dq.popleft()
            if x in targets and x != a:
                p = []
                while x is not None:
                    p.append(x)
                    x = prev[x]
                return p[::-1]
            for y in sorted(e.get(x, ())):
                if y not in prev and y not in stop:
                    prev[y] = x
                    dq.append(y)
        return None

    # ---- interprocedural dominance / must-follow ------------------------------------
    def call_sites_into(self, fid):
        """[(caller fn, call)] for every call site that may enter function fid"""
        idx = getattr(self, "_sites_into", None)
        if idx is None:
            idx = collections.defaultdict(list)
            for g in self.raw_fns.values():
                for c in g.calls():
                    for t in self.targets(c):
                        idx[t].append((g, c))
            self._sites_into = idx
        return idx.get(fid, [])

    def dominated_interproc(self, f, bb, T, depth=3, _seen=None):
        """block bb of f is preceded, on every path from the entry of the program part that can reach
        it, by a call into T: either a call into T dominates bb inside f, or every call site that can
        enter f is itself so dominated (helpers extracted from a function keep the property)"""
        for c in f.calls():
            if c.bb != bb and f.dominates(c.bb, bb) and (c.callee in T or (set(self.targets(c)) & T)):
                # the call must have succeeded when bb runs: bb lies on its success continuation
                if c.term.get("to") is None or bb in f.success_reach(c.term["to"]) or bb == c.term["to"]:
                    return True
        if depth <= 0:
            return False
        _seen = _seen or set()
        if f.id in _seen:
            return False
        sites = self.call_sites_into(f.id)
        if not sites:
            return False
        return all(self.dominated_interproc(g, c.bb, T, depth - 1, _seen | {f.id}) for g, c in sites)

    def followed_interproc(self, f, start, T, depth=3, _seen=None, within=()):
        """every success path from block `start` of f to the end of the enclosing operation passes a call
        into T*: inside f, or — for paths that return from f first — after every call site of f"""
        Tstar = self.must_reach_set(T) if not isinstance(T, frozenset) else T
        if self.all_success_paths_call(f, Tstar, start):
            return True
        if depth <= 0:
            return False
        _seen = _seen or set()
        if f.id in _seen:
            return False
        sites = [(g, c) for g, c in self.call_sites_into(f.id)]
        if not sites:
            return False
        ok = True
        for g, c in sites:
            if c.term.get("to") is None:
                continue
            if (g.root or g.id) in within:
                continue            # a call made from inside the operation that is asked for (T itself uses the helper)
            ok = ok and self.followed_interproc(g, c.term["to"], frozenset(Tstar), depth - 1, _seen | {f.id}, within)
        return ok

    # ---- must-pass-through (DESIGN 4.1) -----------------------------------------
    def must_reach_set(self, targets, scope=None, extra_ok=()):
        """Least set T* ⊇ targets such that a function is in T* when every success
        path from its entry to a return executes a call whose *every possible*
        target... (conservative: *some* call whose resolved target set is non
        empty and entirely inside T*)."""
        T = set(targets)
        changed = True
        cand = [f for f in self.raw_fns.values() if (scope is None or f.id in scope)]
        while changed:
            changed = False
            for f in cand:
                if f.id in T:
                    continue
                if self.all_success_paths_call(f, T, 0):
                    T.add(f.id)
                    changed = True
        return T

    def blocks_calling(self, f, T):
        """blocks of f whose call certainly enters T (all targets in T, at least one)"""
        out = set()
        for c in f.calls():
            ts = [t for t in self.targets(c)]
            if not ts:
                continue
            # the resolved callee decides; closures passed along are extras
            main = c.callee if not c.ind else None
            if main is not None and main in T and c.rkind != "virtual" and c.term["fn"].get("res") is not None:
                out.add(c.bb)
            elif main is None or c.term["fn"].get("res") is None or c.rkind == "virtual":
                prim = [t for t in ts]
                if prim and all(t in T for t in prim):
                    out.add(c.bb)
            # a closure handed to a function that runs its closure argument on every
            # success path (derived: `hof()`; listed: RUNNERS) executes at this site
            if main is not None and (main in self.hof() or main in RUNNERS):
                cl = f.closure_locals()
                for o in c.args:
                    l = op_local(o)
                    if l is not None and any(x in T for x in cl.get(l, ())):
                        out.add(c.bb)
        return out

    def hof(self):
        """functions that call a closure-typed generic parameter on every success path"""
        if getattr(self, "_hof", None) is None:
            self._hof = set()  # break recursion: blocks_calling consults hof()
            base = {"std::ops::FnOnce::call_once", "std::ops::FnMut::call_mut", "std::ops::Fn::call"}
            h = set()
            changed = True
            while changed:
                changed = False
                for f in self.raw_fns.values():
                    if f.id in h:
                        continue
                    hit = {c.bb for c in f.calls() if c.defn in base and c.term["fn"].get("res") is None}
                    # forwarding the own closure-typed parameter to a known higher-order function
                    gen = {i for i in range(1, f.nargs + 1) if re.fullmatch(r"[A-Z][A-Za-z0-9]{0,3}", f.locals[i])}
                    if gen:
                        for c in f.calls():
                            if c.callee in h and any(op_local(o) in gen for o in c.args):
                                hit.add(c.bb)
                    if hit and f.success_returns_from(0) and not f.success_returns_from(0, blocked=hit):
                        h.add(f.id)
                        changed = True
            self._hof = h
        return self._hof

    def all_success_paths_call(self, f, T, start):
        """every success path from block `start` of f to a return passes a call into T"""
        hit = self.blocks_calling(f, T)
        if start in hit:
            return True
        rets = f.success_returns_from(start, blocked=hit)
        # vacuous truth (no success return at all, e.g. diverging fn) is not accepted
        if not f.success_returns_from(start):
            return False
        return not rets


class AnchorMissing(Exception):
    pass


# ----------------------------------------------------------------------------
# match tables: switches on enum discriminants and on integers
# ----------------------------------------------------------------------------

def strip_ref(ty):
    ty = ty.strip()
    for pre in ("&mut ", "&"):
        if ty.startswith(pre):
            return ty[len(pre):].strip()
    if ty.startswith("std::boxed::Box<") and ty.endswith(">"):
        return ty[len("std::boxed::Box<"):-1]
    return ty


def adt_of_type(ty):
    """path of the ADT a type string names (generic args dropped)"""
    ty = ty.strip()
    i = ty.find("<")
    return ty[:i] if i > 0 else ty


STD_GENERIC_FIELDS = {
    "std::result::Result": {"Ok": 0, "Err": 1},
    "std::option::Option": {"Some": 0},
    "std::ops::ControlFlow": {"Break": 0, "Continue": 1},
}


def split_generic_args(ty):
    """`a::B<X<Y>, Z>` -> ["X<Y>", "Z"]"""
    i = ty.find("<")
    if i < 0 or not ty.endswith(">"):
        return []
    inner = ty[i + 1:-1]
    out, depth, cur = [], 0, ""
    for ch in inner:
        if ch in "<([":
            depth += 1
        elif ch in ">)]":
            depth -= 1
        if ch == "," and depth == 0:
            out.append(cur.strip())
            cur = ""
        else:
            cur += ch
    if cur.strip():
        out.append(cur.strip())
    return out


def place_type(prog, f, place):
    """best-effort type string of a place (None when a generic field type is met)"""
    ty = f.locals[place[0]]
    variant = None
    for pe in place[1:]:
        if pe == "*":
            ty = strip_ref(ty)
        elif isinstance(pe, str) and pe.startswith("@"):
            variant = pe[1:]
        elif isinstance(pe, str) and pe.startswith("."):
            name, _, adt = pe[1:].partition(":")
            if adt in STD_GENERIC_FIELDS:
                ga = split_generic_args(ty)
                idx = STD_GENERIC_FIELDS[adt].get(variant)
                variant = None
                if idx is None or idx >= len(ga):
                    return None
                ty = ga[idx]
                continue
            a = prog.adts.get(adt)
            if a is None:
                return None
            vs = a["variants"]
            v = vs[0]
            if variant is not None:
                for x in vs:
                    if x["name"] == variant:
                        v = x
            variant = None
            fty = None
            for fl in v["fields"]:
                if fl["n"] == name:
                    fty = fl["ty"]
            if fty is None:
                return None
            ty = fty
        else:
            return None
    return ty


STD_ENUMS = {
    "std::option::Option": {"kind": "enum", "variants": [{"name": "None", "discr": 0}, {"name": "Some", "discr": 1}]},
    "std::result::Result": {"kind": "enum", "variants": [{"name": "Ok", "discr": 0}, {"name": "Err", "discr": 1}]},
    "std::ops::ControlFlow": {"kind": "enum", "variants": [{"name": "Continue", "discr": 0}, {"name": "Break", "discr": 1}]},
    "std::cmp::Ordering": {"kind": "enum", "variants": [{"name": "Less", "discr": -1}, {"name": "Equal", "discr": 0}, {"name": "Greater", "discr": 1}]},
}


def enum_switches(prog, f):
    """yields (block, enum adt path, {variant name: target block}, otherwise block, scrutinee place)"""
    for bi, b in enumerate(f.blocks):
        t = b["term"]
        if t["t"] != "switch":
            continue
        l = op_local(t["o"])
        if l is None:
            continue
        # the discriminant read feeding this switch (same block, or a dominating block)
        src = None
        for s in reversed(b["stmts"]):
            if s["dst"] == [l] and s["rv"].get("r") == "discr":
                src = s["rv"]["p"]
                break
        if src is None:
            continue
        ty = place_type(prog, f, src)
        if ty is None:
            continue
        adt = adt_of_type(strip_ref(ty))
        a = prog.adts.get(adt) or STD_ENUMS.get(adt)
        if a is None or a["kind"] != "enum":
            continue
        by_discr = {str(v["discr"]): v["name"] for v in a["variants"]}
        m = {}
        for val, tgt in t["targets"]:
            n = by_discr.get(str(val))
            if n is not None:
                m[n] = tgt
        yield bi, adt, m, t["otherwise"], src


def int_switches(f, ty=None):
    """switches whose scrutinee is an integer (not a discriminant read in the same block)"""
    for bi, b in enumerate(f.blocks):
        t = b["term"]
        if t["t"] != "switch":
            continue
        if ty and t["ty"] != ty:
            continue
        l = op_local(t["o"])
        is_discr = any(s["dst"] == [l] and s["rv"].get("r") == "discr" for s in b["stmts"])
        if is_discr:
            continue
        yield bi, t


def dominated(f, b):
    """set of blocks dominated by block b"""
    return {x for x in range(len(f.blocks)) if f.dominates(b, x)}


def region_calls(f, blocks):
    return [c for c in f.calls() if c.bb in blocks]


def region_aggregates(f, blocks, adt=None):
    out = []
    for bi in sorted(blocks):
        for s in f.blocks[bi]["stmts"]:
            rv = s["rv"]
            if rv.get("r") == "agg" and rv.get("akind") == "adt" and (adt is None or rv.get("adt") == adt):
                out.append((bi, s))
    return out


def diverges(f, start):
    """no `ret` is reachable from block start (along normal edges)"""
    r = f.reachable(start)
    return not any(f.blocks[b]["term"]["t"] == "ret" for b in r)


def panics_in(prog, f, blocks):
    """panic-family calls (todo!/unreachable!/panic!/unwrap failed...) inside blocks"""
    out = []
    for c in f.calls():
        if c.bb in blocks and is_panic_fn(c.callee):
            out.append(c)
    return out


def natural_loops(f):
    """[(header, body set)] for every back edge b -> h with h dominating b (normal edges only)"""
    out = {}
    preds = f.preds()
    for b in range(len(f.blocks)):
        if f.blocks[b]["cleanup"]:
            continue
        for h in f.succ(b):
            if f.dominates(h, b):
                body = out.setdefault(h, {h})
                st = [b]
                while st:
                    x = st.pop()
                    if x in body:
                        continue
                    body.add(x)
                    st.extend(preds.get(x, ()))
    return sorted(out.items())
