"""axv engine: obligations, floors, known findings, evidence, exit status."""
import collections, json, os, sys, time, traceback, importlib
from . import core

VERIF = core.VERIF


class Cx:
    """what a rule module sees"""

    def __init__(self, prop, tier, prog, progs=None):
        self.prop = prop
        self.tier = tier
        self.p = prog
        self.progs = progs or {"default": prog}
        self.obl = []          # every obligation evaluated
        self.rules = {}        # rule id -> {"text":..., "floor":..., "n":0}
        self.notes = []
        self.undecided = []

    def rule(self, rid, text, floor=None):
        if rid in self.rules:
            return rid
        self.rules[rid] = {"id": rid, "text": text, "floor": floor, "instances": 0,
                           "ok": 0, "violations": 0, "advisory": 0}
        return rid

    def _add(self, rid, key, status, where, detail):
        if rid not in self.rules:
            self.rule(rid, rid)
        r = self.rules[rid]
        r["instances"] += 1
        r[{"ok": "ok", "violation": "violations", "advisory": "advisory"}[status]] += 1
        self.obl.append({"rule": rid, "key": "%s:%s" % (rid, key), "status": status,
                         "where": where, "detail": detail})

    def ok(self, rid, key, where="", detail=""):
        self._add(rid, key, "ok", where, detail)

    def bad(self, rid, key, where="", detail=""):
        self._add(rid, key, "violation", where, detail)

    def advisory(self, rid, key, where="", detail=""):
        self._add(rid, key, "advisory", where, detail)

    def verdict(self, cond, rid, key, where="", detail_ok="", detail_bad=""):
        if cond:
            self.ok(rid, key, where, detail_ok)
        else:
            self.bad(rid, key, where, detail_bad or detail_ok)
        return cond

    def include(self, module, rules, rid, text, floor=None, skip=()):
        """evaluate another property's module on the same facts and adopt the obligations of the given
        rules under rule id `rid` (a construct that is a necessary condition of both properties)"""
        if getattr(self, "nested", False):
            return      # only native rules are adopted; includes of an included module are not evaluated (and may be cyclic)
        self.rule(rid, text, floor)
        sub = Cx(self.prop, self.tier, self.p, self.progs)
        sub.nested = True
        module.check(sub)
        for o in sub.obl:
            if o["rule"] in rules:
                if any(x in o["key"] for x in skip):
                    continue
                key = o["key"].split(":", 1)[1] if ":" in o["key"] else o["key"]
                key = "%s/%s" % (o["rule"], key)
                if o["status"] == "ok":
                    self.ok(rid, key, o["where"], o["detail"])
                elif o["status"] == "violation":
                    self.bad(rid, key, o["where"], o["detail"])
                else:
                    self.advisory(rid, key, o["where"], o["detail"])

    def guard(self, rid, what, fn, *a, **kw):
        """run an anchor lookup; a missing anchor is a fail-closed violation"""
        try:
            # the function(s) looked up here are what the rule is about: on the plain evaluation they become atoms of this run's
            # vocabulary (never dissolved into their callers on the inlined views); lookups outside guard() are iterations
            self.p.recording = True
            try:
                return fn(*a, **kw)
            finally:
                self.p.recording = False
        except core.AnchorMissing as e:
            self.bad(rid, "anchor-missing:%s" % what, "", str(e))
            return None

    def finish_floors(self):
        for rid, r in self.rules.items():
            fl = r["floor"]
            if fl is not None and r["instances"] < fl:
                self.obl.append({"rule": rid, "key": "%s:floor" % rid, "status": "violation", "where": "",
                                 "detail": "rule matched %d instance(s), fewer than the %d confirmed by hand: "
                                           "an anchor moved or vanished (fail closed)" % (r["instances"], fl)})
                r["violations"] += 1


def load_known():
    path = os.path.join(VERIF, "known_findings.jsonl")
    out = []
    if os.path.exists(path):
        for line in open(path):
            line = line.strip()
            if line and not line.startswith("#"):
                out.append(json.loads(line))
    return out


def run_check(prop, tier, seed=0):
    t0 = time.time()
    evdir = os.environ.get("AXV_EVIDENCE_DIR") or os.path.join(VERIF, "evidence")
    os.makedirs(os.path.join(evdir, "replay"), exist_ok=True)
    ev_path = os.path.join(evdir, "%s.json" % prop)
    try:
        os.remove(ev_path)
    except OSError:
        pass
    mod = importlib.import_module("rules.%s" % prop.lower())
    configs = [""]
    if tier == "thorough":
        configs = ["", "no-flush"]      # the crate's only feature: every rule is re-evaluated under it
    progs = {}
    cache_hits = {}
    for cfg in configs:
        d, hit = core.facts_dir(cfg)
        progs[cfg or "default"] = core.Program(d)
        cache_hits[cfg or "default"] = hit
    prog = progs["default"]

    def evaluate(q, qprogs):
        """the rules on the plain program; obligations that fail there are re-evaluated on the inlined views (a function
        together with the helpers of its source file it calls, see axvlib.inline) and count as violated only if they fail
        on both - so that extracting or inlining a helper does not change a verdict"""
        c1 = Cx(prop, tier, q, qprogs)
        crash = None
        try:
            mod.check(c1)
        except core.AnchorMissing as e:
            c1.bad("engine", "anchor-missing", "", str(e))
        except Exception:
            crash = traceback.format_exc()
            c1.bad("engine", "checker-crash", "", crash[-1500:])
        c1.finish_floors()
        failing = [o for o in c1.obl if o["status"] == "violation"]
        if failing and not crash and not os.environ.get("AXV_NO_INLINE"):
            for x in qprogs.values():
                x.inline_mode = True
            c2 = Cx(prop, tier, q, qprogs)
            try:
                mod.check(c2)
                c2.finish_floors()
                v2 = collections.defaultdict(dict)        # rule -> {key: obligation} violated on the inlined views
                for o in c2.obl:
                    if o["status"] == "violation":
                        v2[o["rule"]][o["key"]] = o
                by_rule = collections.defaultdict(list)
                for o in failing:
                    by_rule[o["rule"]].append(o)
                # a floor that fails because a refactoring merged duplicated sites (5 write-back sites -> 4 behind one helper) is
                # not a vanished anchor: on the inlined evaluation a shortfall of up to a half is tolerated as long as the rule
                # still has instances and none of them fails
                for rid in list(v2):
                    fk = "%s:floor" % rid
                    r2_ = c2.rules.get(rid)
                    if fk in v2[rid] and r2_ and r2_.get("floor"):
                        others = [k for k in v2[rid] if k != fk]
                        if not others and r2_["instances"] >= max(1, -(-r2_["floor"] // 2)):
                            del v2[rid][fk]
                for rid, obls in by_rule.items():
                    keys1 = {o["key"] for o in obls}
                    common = keys1 & set(v2.get(rid, {}))
                    for o in obls:
                        if not v2.get(rid) or (common and o["key"] not in common) or (not common):
                            # the rule holds on the inlined views, or this instance does
                            o["status"] = "ok"
                            o["detail"] = "holds on the inlined view (the function together with the same-file helpers it calls)"
                            r = c1.rules.get(rid)
                            if r:
                                r["violations"] = max(0, r["violations"] - 1)
                                r["ok"] = r.get("ok", 0) + 1
                        elif o["key"] in common:
                            # both evaluations report this instance: the inlined one saw more of the code, its account is kept
                            o2 = v2[rid][o["key"]]
                            o["detail"] = o2.get("detail", o["detail"])
                            o["where"] = o2.get("where") or o["where"]
                    if v2.get(rid) and not common:
                        # the rule fails on both, under different instance names (a helper is attributed to its callers on
                        # the inlined views): report what the inlined evaluation names
                        for k, o2 in v2[rid].items():
                            c1._add(rid, k[len(rid) + 1:] if k.startswith(rid + ":") else k, "violation", o2["where"], o2["detail"])
            except Exception:
                if os.environ.get('AXV_DEBUG'): traceback.print_exc()
                pass        # the inlined evaluation is an attempt to discharge, never a source of alarms
            finally:
                for x in qprogs.values():
                    x.inline_mode = False
        return c1, crash

    cx, crashed = evaluate(prog, progs)
    # thorough tier: the same rules on the facts of every other feature configuration
    for cfg, q in progs.items():
        if cfg == "default" or crashed:
            continue
        sub, _ = evaluate(q, {"default": q, cfg: q})
        skip = set(getattr(mod, "CONFIG_DEPENDENT", {}).get(cfg, ()))
        # obligations adopted from another property's rule (Cx.include: `C12.9:C09.1/drop-impl`) depend on the configuration
        # exactly when the original does
        import glob as _glob
        import re as _re
        theirs = set()
        for fpath in _glob.glob(os.path.join(VERIF, "rules", "c[0-9][0-9].py")):
            try:
                m2 = importlib.import_module("rules.%s" % os.path.basename(fpath)[:-3])
                theirs |= set(getattr(m2, "CONFIG_DEPENDENT", {}).get(cfg, ()))
            except Exception:
                pass

        def original(k):
            mm = _re.match(r"^[^:]+:(C\d+\.\w+)/(.*)$", k)
            return "%s:%s" % (mm.group(1), mm.group(2)) if mm else None
        for o in sub.obl:
            if o["key"] in skip or original(o["key"]) in theirs:
                continue
            if o["key"].endswith(":floor") and o["status"] == "violation":
                # the floor of an adopting rule whose adopted obligations are configuration dependent
                r_ = sub.rules.get(o["rule"]) or {}
                adopted = [x for x in sub.obl if x["rule"] == o["rule"] and original(x["key"]) in theirs]
                if adopted and r_.get("floor") is not None and r_.get("instances", 0) + len(adopted) >= r_["floor"]:
                    continue
            o = dict(o)
            o["config"] = cfg
            o["detail"] = "[--features %s] %s" % (cfg, o["detail"])
            cx.obl.append(o)

    # thorough tier: positive controls - the recorded mutants of this property must be reported
    poscon = None
    if tier == "thorough" and not os.environ.get("AXV_REPO") and not os.environ.get("AXV_NO_SELFTEST"):
        import subprocess
        try:
            r = subprocess.run([sys.executable, os.path.join(VERIF, "selftest", "run.py"), "prop", prop],
                               stdout=subprocess.PIPE, stderr=subprocess.STDOUT, text=True, timeout=3000)
            poscon = json.loads(r.stdout.strip().splitlines()[-1])
        except Exception as e:
            poscon = {"error": str(e)[:300]}
        if poscon.get("missed"):
            print("WARNING: positive controls not caught by %s: %s" % (prop, poscon["missed"]))

    known = [k for k in load_known() if k.get("property") == prop]
    known_keys = {k["key"]: k for k in known if k.get("status") == "known"}
    viol, kf = [], []
    for o in cx.obl:
        if o["status"] != "violation":
            continue
        if o["key"] in known_keys:
            kf.append((o, known_keys[o["key"]]))
        else:
            viol.append(o)

    printed = set()
    for o, k in kf:
        if o["key"] in printed:
            continue
        printed.add(o["key"])
        print("KNOWN-FINDING: property=%s %s %s — %s" % (prop, o["key"], o["where"], k.get("what", "")))
    replay = None
    stale = os.path.join(evdir, "replay", "%s.json" % prop)
    if not viol and os.path.exists(stale):
        os.remove(stale)
    if viol:
        replay = os.path.join(evdir, "replay", "%s.json" % prop)
        json.dump({"property": prop, "violations": viol, "repo_hash": core.repo_hash()},
                  open(replay, "w"), indent=1)
        for o in viol:
            print("  violation %s at %s: %s" % (o["key"], o["where"], o["detail"]))
        print("VIOLATION property=%s replay=%s" % (prop, replay))

    nobl = len(cx.obl)
    ndis = sum(1 for o in cx.obl if o["status"] == "ok")
    nfn = len(prog.fns)
    ncalls = sum(len(f.calls()) for f in prog.fns.values())
    samples = []
    seen_rules = set()
    for o in cx.obl:
        if o["rule"] not in seen_rules or o["status"] != "ok":
            seen_rules.add(o["rule"])
            samples.append({k: o[k] for k in ("key", "status", "where", "detail")})
    samples = samples[:60]
    distinct = len({o["key"] for o in cx.obl})
    ev = {
        "property_id": prop,
        "tier": tier,
        "seed": seed,
        "level": "other",
        "coverage": {
            "explanation": getattr(mod, "EXPLANATION", ""),
            "decided_clauses": [r["text"] for r in cx.rules.values()],
            "not_decided": getattr(mod, "NOT_DECIDED", ""),
            "obligations": nobl,
            "discharged": ndis,
            "evaluations": nobl,
            "distinct_nontrivial": distinct,
            "rule": "one obligation per rule instance found in the MIR/call graph of /repo's current tree; "
                    "distinct = distinct obligation keys (rule + construct); every instance examines at least "
                    "one CFG path, call-graph edge or table row",
            "samples": samples,
            "rules": list(cx.rules.values()),
            "analysed": {"configurations": list(progs.keys()), "functions": nfn, "call_sites": ncalls,
                         "adts": len(prog.adts), "impls": len(prog.impls),
                         "facts_from_cache": cache_hits, "repo_hash": core.repo_hash()},
            "known_findings_printed": [o["key"] for o, _ in kf],
            "advisories": [o for o in cx.obl if o["status"] == "advisory"],
            "notes": cx.notes,
            "positive_controls": poscon,
            "exhaustive": True,
        },
        "assumptions": getattr(mod, "ASSUMPTIONS", []) + [
            "rustc's type checker, MIR construction, dominators and Instance::try_resolve are trusted",
            "calls through generic bounds/dyn are closed by class-hierarchy analysis over the crate's impls",
            "a structural rule decides a necessary condition of the property, not the behaviour itself",
        ],
        "wall_s": round(time.time() - t0, 2),
        "violations": len(viol),
    }
    json.dump(ev, open(ev_path, "w"), indent=1)
    print("%s [%s]: %d obligations, %d discharged, %d known finding(s), %d violation(s) in %.1fs" % (
        prop, tier, nobl, ndis, len(kf), len(viol), time.time() - t0))
    return 1 if viol else 0
