"""Inlined views of functions.

`inlined_view(prog, fn)` returns a synthetic Fn whose CFG contains, after each call of a crate-local helper that
lives in the same source file, a private copy of that helper's blocks (locals renumbered, parameters assigned from
the call's arguments, every `return` of the copy assigning the call's destination and jumping to the call's
continuation). The call terminator itself is kept as a marker, so rules that look for "a call of X" or use call blocks
as kill sets keep working, and rules that look at what a function does on its paths see through the "extract method"
refactoring. The engine evaluates every rule on the plain program and on the inlined views and reports a violation
only when both evaluations report it (see engine.run_check)."""
import copy, re
from . import core

import glob, os

_NAMED = None


def named_by_rules():
    """identifiers that occur in the rule sources: a function the rules talk about by name is part of their vocabulary (an
    atom such as read_string or cache_frame) and is never dissolved into its callers"""
    global _NAMED
    if _NAMED is None:
        words = set()
        here = os.path.dirname(os.path.dirname(os.path.abspath(__file__)))
        import tokenize
        for f in glob.glob(os.path.join(here, "rules", "*.py")):
            # names are always written as (parts of) string literals; comments are not vocabulary
            with open(f, "rb") as fh:
                for tok in tokenize.tokenize(fh.readline):
                    if tok.type == tokenize.STRING:
                        lit = tok.string
                        # what is written as a path (`Pager::cache_frame`, `::is_null`, r"WalReader.*::reload_blocks$"); a bare
                        # word is a function name only if the rules look that function up (is_atom)
                        for m_ in re.findall(r"::\s*([A-Za-z_][A-Za-z0-9_]*)", lit):
                            words.add(m_)
        _NAMED = words
    return _NAMED


MAX_CALLEE_BLOCKS = 450
MAX_TOTAL_BLOCKS = 7000
MAX_DEPTH = 3


def is_atom(prog, g):
    """a function the rules talk about - by a path written in their text, or looked up by them on the plain evaluation of
    this run - is part of their vocabulary and is never dissolved into its callers"""
    return g.name in named_by_rules() or g.id in getattr(prog, "requested", ())


def _remap_place(pl, lb):
    out = [pl[0] + lb]
    for pe in pl[1:]:
        if isinstance(pe, str) and pe.startswith("[_"):
            m = re.match(r"\[_(\d+)\]", pe)
            if m:
                pe = "[_%d]" % (int(m.group(1)) + lb)
        out.append(pe)
    return out


def _remap_operand(o, lb, pb):
    if not isinstance(o, dict):
        return o
    if "c" in o:
        return {"c": _remap_place(o["c"], lb)}
    if "m" in o:
        return {"m": _remap_place(o["m"], lb)}
    if "k" in o:
        k = dict(o["k"])
        pi = k.get("promoted")
        if isinstance(pi, int) and not isinstance(pi, bool):
            k["promoted"] = pi + pb
        return {"k": k}
    return copy.deepcopy(o)


def _remap_rv(rv, lb, pb):
    out = {}
    for k, v in rv.items():
        if k == "p" and isinstance(v, list):
            out[k] = _remap_place(v, lb)
        elif k == "o":
            if isinstance(v, list):
                out[k] = [_remap_operand(x, lb, pb) for x in v]
            else:
                out[k] = _remap_operand(v, lb, pb)
        else:
            out[k] = v
    return out


def _compute_idoms(blocks, succ_all):
    n = len(blocks)
    preds = [[] for _ in range(n)]
    for b in range(n):
        for s in succ_all(b):
            if s is not None and 0 <= s < n:
                preds[s].append(b)
    # reverse postorder from 0
    order, seen = [], set()
    stack = [(0, iter(succ_all(0)))]
    seen.add(0)
    while stack:
        b, it = stack[-1]
        adv = False
        for s in it:
            if s is not None and s not in seen and 0 <= s < n:
                seen.add(s)
                stack.append((s, iter(succ_all(s))))
                adv = True
                break
        if not adv:
            order.append(b)
            stack.pop()
    rpo = list(reversed(order))
    num = {b: i for i, b in enumerate(rpo)}
    idom = {0: 0}

    def inter(a, b):
        while a != b:
            while num[a] > num[b]:
                a = idom[a]
            while num[b] > num[a]:
                b = idom[b]
        return a
    changed = True
    while changed:
        changed = False
        for b in rpo[1:]:
            ps = [p for p in preds[b] if p in idom]
            if not ps:
                continue
            new = ps[0]
            for p in ps[1:]:
                new = inter(new, p)
            if idom.get(b) != new:
                idom[b] = new
                changed = True
    for b in range(n):
        blocks[b]["idom"] = None if b == 0 else idom.get(b)


def inlined_view(prog, root):
    """synthetic Fn for `root` with same-file crate-local callees inlined (None when nothing is inlined)"""
    blocks = []
    origins = []        # per block: (function the block was copied from, base of its locals in the view, its arity)
    locals_ = list(root.locals)
    names = dict(root.names)
    promoted = list(root.rec.get("promoted") or [])
    count = [0]

    def selectable(f, call, stack):
        if call.ind or call.rkind == "virtual":
            return None
        tg = [t for t in prog.targets(call) if t in prog.raw_fns]
        res = call.term["fn"].get("res")
        if res not in prog.raw_fns:
            return None
        g = prog.raw_fns[res]
        if g.file != root.file or g.id in stack or g.kind == "closure":
            return None
        if is_atom(prog, g):
            return None
        if len(g.blocks) > MAX_CALLEE_BLOCKS or len(blocks) + len(g.blocks) > MAX_TOTAL_BLOCKS:
            return None
        if len(call.args) != g.nargs:
            return None
        return g

    def copy_fn(f, lb, pb, stack, ret_to, ret_dst, unwind_to, is_root):
        base = len(blocks)
        for _ in f.blocks:
            blocks.append(None)
            origins.append((f.id, lb, f.nargs))
        pending = []
        for i, b in enumerate(f.blocks):
            nb = {"cleanup": b.get("cleanup", False), "idom": None, "stmts": []}
            for st in b["stmts"]:
                ns = dict(st)
                ns["dst"] = _remap_place(st["dst"], lb)
                ns["rv"] = _remap_rv(st["rv"], lb, pb)
                nb["stmts"].append(ns)
            t = b["term"]
            nt = {}
            for k, v in t.items():
                if k in ("to", "unwind", "otherwise"):
                    nt[k] = (v + base) if isinstance(v, int) else v
                elif k == "targets":
                    nt[k] = [[x[0], x[1] + base] for x in v]
                elif k == "succ":
                    nt[k] = [x + base for x in v]
                elif k in ("args", "mo"):
                    nt[k] = [_remap_operand(x, lb, pb) for x in (v or [])]
                elif k in ("dst", "p") and isinstance(v, list) and v and isinstance(v[0], int):
                    nt[k] = _remap_place(v, lb)
                elif k == "o":
                    nt[k] = _remap_operand(v, lb, pb)
                elif k == "fn" and isinstance(v, dict) and "o" in v:
                    vv = dict(v)
                    vv["o"] = _remap_operand(v["o"], lb, pb)
                    nt[k] = vv
                else:
                    nt[k] = v
            if not is_root:
                if nt["t"] == "ret":
                    # hand the result to the call's destination and continue after the call
                    nb["stmts"].append({"l": t.get("l", f.line), "x": True, "dst": list(ret_dst), "rv": {"r": "use", "o": [{"m": [lb]}]}})
                    nt = {"t": "goto", "to": ret_to} if ret_to is not None else {"t": "unreach"}
                elif nt["t"] == "resume":
                    nt = {"t": "goto", "to": unwind_to} if unwind_to is not None else {"t": "resume"}
            nb["term"] = nt
            blocks[base + i] = nb
            if t["t"] == "call":
                pending.append(base + i)
        # inline selected calls of this copy
        if len(stack) <= MAX_DEPTH:
            for bi in pending:
                nb = blocks[bi]
                call = core.Call(f, bi - base, f.blocks[bi - base]["term"])
                g = selectable(f, call, stack)
                if g is None:
                    continue
                glb = len(locals_)
                locals_.extend(g.locals)
                gpb = len(promoted)
                promoted.extend(g.rec.get("promoted") or [])
                for k, v in g.names.items():
                    if isinstance(v, list) and v:
                        names["%s@%s" % (k, g.id.rsplit("::", 1)[-1])] = [v[0] + glb] + list(v[1:])
                nt = nb["term"]
                # layout: block B (statements) -> parameter block -> copy of the callee -> marker block holding the original
                # call terminator (same arguments, destination and continuation). "After the call" therefore still means
                # after the callee returned, "before the call" includes the callee's body.
                pblk = {"cleanup": nb.get("cleanup", False), "idom": None, "stmts": [], "term": None, "inl": g.id}
                for ai, a in enumerate(nt["args"]):
                    pblk["stmts"].append({"l": nt.get("l", 0), "x": True, "dst": [glb + 1 + ai], "rv": {"r": "use", "o": [copy.deepcopy(a) if "k" in a else ({"c": (a.get("c") or a.get("m"))})]}})
                pidx = len(blocks)
                blocks.append(pblk)
                origins.append(origins[bi])
                origins.append(origins[bi])
                midx = len(blocks)
                marker = {"cleanup": nb.get("cleanup", False), "idom": None, "stmts": [], "term": dict(nt)}
                marker["term"]["inlined"] = g.id
                blocks.append(marker)
                scratch = len(locals_)
                locals_.append(g.locals[0])
                if isinstance(nt.get("to"), int) and nt.get("dst"):
                    # the value the body computed is what the call returns: data flow reaches the destination
                    post = {"cleanup": nb.get("cleanup", False), "idom": None,
                            "stmts": [{"l": nt.get("l", 0), "x": True, "dst": list(nt["dst"]), "rv": {"r": "use", "o": [{"m": [scratch]}]}}],
                            "term": {"t": "goto", "to": nt["to"]}}
                    marker["term"]["to"] = len(blocks)
                    blocks.append(post)
                    origins.append(origins[bi])
                entry = copy_fn(g, glb, gpb, stack + [g.id], midx, [scratch], nt.get("unwind"), False)
                pblk["term"] = {"t": "goto", "to": entry}
                nb["term"] = {"t": "goto", "to": pidx}
                count[0] += 1
        return base

    copy_fn(root, 0, 0, [root.id], None, None, None, True)
    if count[0] == 0:
        return None
    rec = dict(root.rec)
    rec["blocks"] = blocks
    rec["locals"] = locals_
    rec["names"] = names
    rec["promoted"] = promoted
    view = core.Fn(rec, root.crate)
    view.inlined = count[0]
    view.origins = origins
    _compute_idoms(blocks, lambda b: view.succ(b, unwind=True))
    return view
