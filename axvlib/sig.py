"""SIG — codec signatures (DESIGN 4.13): abstracts an encoder/decoder arm to the sequence of
wire items it emits/consumes, with loop nesting, so that writer and reader can be compared
per variant. Vocabulary: u8, u32le, u64le, f64le, str32 (u32 length + bytes); [..] = repetition.
An event outside the vocabulary makes the arm not analysable (reported, never guessed)."""
import re
from .core import natural_loops, op_const

NUM = re.compile(r"core::num::<impl (\w+)>::(to|from)_le_bytes|core::f(32|64)::<impl f(32|64)>::(to|from)_le_bytes")


def _event(call, side, string_fns):
    c = call.callee
    if c in string_fns:
        return "str32"
    m = NUM.search(c)
    if m:
        if m.group(1):
            ty, d = m.group(1), m.group(2)
        else:
            ty, d = "f" + m.group(3), m.group(5)
        if (side == "w" and d == "to") or (side == "r" and d == "from"):
            return ty + "le"
        return None
    if side == "w" and c.endswith("::push") and "Vec" in c:
        k = op_const(call.args[1])
        return "u8"
    return None


def normalise(txt):
    """a repetition whose body is a single repetition is that repetition ((x*)* = x*): `rows.iter().flatten()` and a
    nested loop write the same wire language"""
    prev = None
    while prev != txt:
        prev = txt
        txt = re.sub(r"\[ \[ ([^\[\]]*) \] \]", r"[ \1 ]", txt)
    return txt


def signature(f, entry, region, side, string_fns, prog=None):
    """events of the blocks of `region` in reverse post-order from `entry`, annotated with loop depth. With `prog`, a
    closure handed to Iterator::for_each / try_for_each is a repetition of the closure's own signature."""
    loops = [(h, body) for h, body in natural_loops(f) if h in region]
    order, seen = [], set()

    def dfs(b):
        seen.add(b)
        for s in f.succ(b):
            if s in region and s not in seen:
                dfs(s)
        order.append(b)
    import sys
    sys.setrecursionlimit(10000)
    dfs(entry)
    order.reverse()
    out = []
    for b in order:
        c = f.call_at(b)
        if c is None:
            continue
        ev = _event(c, side, string_fns)
        depth = sum(1 for h, body in loops if b in body)
        if ev is None and prog is not None and c.callee.rsplit("::", 1)[-1] in ("for_each", "try_for_each"):
            clo = [t for t in prog.targets(c) if t in prog.raw_fns and prog.raw_fns[t].kind == "closure"]
            if len(clo) == 1:
                g = prog.fns.view(clo[0]) if hasattr(prog.fns, "view") else prog.raw_fns[clo[0]]
                inner = signature(g, 0, set(range(len(g.blocks))), side, string_fns, prog)
                if inner:
                    for tok in ("[ " + inner + " ]").split(" "):
                        out.append((depth, tok))
            continue
        if ev is None:
            continue
        out.append((depth, ev))
    # render with brackets
    s, cur = [], 0
    for d, ev in out:
        while cur < d:
            s.append("[")
            cur += 1
        while cur > d:
            s.append("]")
            cur -= 1
        s.append(ev)
    while cur > 0:
        s.append("]")
        cur -= 1
    txt = " ".join(s)
    return normalise(txt)
