"""Path search with constant facts (DESIGN 3.x, "feasible paths").

A depth-first walk over one function's CFG (plain or inlined view) that carries, per path, what is *known* about locals:
integer/bool constants, enum variants and the components of tuples/structs/enum payloads built from such values, and which
place a reference points to. A switch whose scrutinee is known follows only the matching edge; a switch on an unknown
scrutinee forks and each edge *learns* the value it was taken under (two tests of one unmodified value agree, a `match` on
a value built as `Outcome::Dead(..)` three blocks earlier takes the Dead arm only). Nothing is executed and no value is ever
computed beyond equality/negation of known constants: it is constant propagation along paths, used to discard CFG paths
that no execution can take. Every pruning step needs a known constant, so the set of paths explored is a superset of the
feasible ones: "no path found" is sound for the rules that ask for absence.

Values: ("k", int) | ("agg", adt|None, variant|None, ((field, value), ...)) | ("ref", base local, projections) | None (unknown).
"""
from . import core
from .core import op_local, op_const


class TooManyStates(Exception):
    pass


PASS = ("clone", "deref", "deref_mut", "as_ref", "as_mut", "borrow", "borrow_mut", "into", "from", "to_owned", "copied", "cloned")


def _fname(pe):
    return pe[1:].split(":")[0]


class PathSearch:
    def __init__(self, prog, f, place_hook=None, max_states=80000, fixed_locals=None):
        self.p = prog
        self.f = f
        self.place_hook = place_hook
        self.fixed = dict(fixed_locals or {})      # locals whose value is given (`the opcode byte is 0x03`), wherever they are assigned
        self.max_states = max_states
        self._sw = {}
        for bi, adt, m, other, src in core.enum_switches(prog, f):
            self._sw[bi] = (adt, src)
        self._addr_taken = set()
        for b in f.blocks:
            for s in b["stmts"]:
                if s["rv"].get("r") in ("ref", "rawptr"):
                    self._addr_taken.add(s["rv"]["p"][0])
        self._addr_taken_mut = set()
        for b in f.blocks:
            for s in b["stmts"]:
                if (s["rv"].get("r") == "ref" and s["rv"].get("mut")) or s["rv"].get("r") == "rawptr":
                    self._addr_taken_mut.add(s["rv"]["p"][0])
        self._live = self._liveness()

    # ---- enum tables ---------------------------------------------------------------------------------------
    def variants(self, adt):
        a = self.p.adts.get(adt) or core.STD_ENUMS.get(adt)
        if a is None or a.get("kind") != "enum":
            return None
        return a["variants"]

    def discr_of(self, adt, variant):
        vs = self.variants(adt)
        if vs is None:
            return None
        for v in vs:
            if v["name"] == variant:
                return v["discr"]
        return None

    def variant_of(self, adt, d):
        vs = self.variants(adt)
        if vs is None:
            return None
        for v in vs:
            if str(v["discr"]) == str(d):
                return v["name"]
        return None

    # ---- liveness (keeps the state space small: facts about dead locals are forgotten) ------------------------
    def _liveness(self):
        f = self.f
        n = len(f.blocks)
        use, defs = [set() for _ in range(n)], [set() for _ in range(n)]

        def u(bi, l):
            if l is not None and l not in defs[bi]:
                use[bi].add(l)
        for bi, b in enumerate(f.blocks):
            for s in b["stmts"]:
                rv = s["rv"]
                if rv.get("p"):
                    u(bi, rv["p"][0])
                    for pe in rv["p"][1:]:
                        if isinstance(pe, str) and pe.startswith("[_"):
                            u(bi, int(pe[2:-1]))
                for o in (rv.get("o") or []) if isinstance(rv.get("o"), list) else []:
                    pl = o.get("c") or o.get("m") if isinstance(o, dict) else None
                    if pl:
                        u(bi, pl[0])
                if len(s["dst"]) == 1:
                    defs[bi].add(s["dst"][0])
                else:
                    u(bi, s["dst"][0])
            t = b["term"]
            for key in ("args", "mo"):
                for o in t.get(key) or ():
                    pl = o.get("c") or o.get("m") if isinstance(o, dict) else None
                    if pl:
                        u(bi, pl[0])
            if isinstance(t.get("o"), dict):
                pl = t["o"].get("c") or t["o"].get("m")
                if pl:
                    u(bi, pl[0])
            if t["t"] == "drop" and t.get("p"):
                u(bi, t["p"][0])
            if t["t"] == "call":
                fo = t["fn"].get("o") if isinstance(t.get("fn"), dict) else None
                if isinstance(fo, dict):
                    pl = fo.get("c") or fo.get("m")
                    if pl:
                        u(bi, pl[0])
                if t.get("dst"):
                    if len(t["dst"]) == 1:
                        pass          # defined after the block's uses; successors see it through their own live-in
                    else:
                        u(bi, t["dst"][0])
            if t["t"] == "ret":
                u(bi, 0)
        live_in = [set(x) for x in use]
        changed = True
        while changed:
            changed = False
            for bi in range(n - 1, -1, -1):
                out = set()
                for s in f.succ(bi, unwind=True):
                    if s is not None:
                        out |= live_in[s]
                t = f.blocks[bi]["term"]
                d = set(defs[bi])
                if t["t"] == "call" and t.get("dst") and len(t["dst"]) == 1:
                    d.add(t["dst"][0])
                new = use[bi] | (out - d)
                if new != live_in[bi]:
                    live_in[bi] = new
                    changed = True
        return live_in

    # ---- values ------------------------------------------------------------------------------------------------
    def read(self, env, place, depth=0):
        if depth > 8:
            return None
        v = env.get(place[0])
        projs = list(place[1:])
        i = 0
        while i < len(projs):
            pe = projs[i]
            if pe == "*":
                if v is not None and v[0] == "ref":
                    v = self.read(env, [v[1]] + list(v[2]), depth + 1)
                else:
                    v = None
            elif isinstance(pe, str) and pe.startswith("@"):
                if v is not None and v[0] == "agg" and v[2] is not None and v[2] != pe[1:]:
                    return ("infeasible",)
            elif isinstance(pe, str) and pe.startswith("."):
                if v is not None and v[0] == "agg":
                    v = dict(v[3]).get(_fname(pe))
                else:
                    v = None
            else:
                v = None
            if v is None:
                break
            i += 1
        if v is None and self.place_hook is not None:
            v = self.place_hook(self.f, place)
        return v

    def _set_path(self, v, projs, val, adt_hint=None):
        """v with the component at projs replaced by val"""
        if not projs:
            return val
        pe = projs[0]
        if isinstance(pe, str) and pe.startswith("@"):
            base = v if (v is not None and v[0] == "agg") else ("agg", None, None, ())
            if base[2] is not None and base[2] != pe[1:]:
                base = ("agg", base[1], pe[1:], ())
            base = ("agg", base[1], pe[1:], base[3])
            return self._set_path(base, projs[1:], val)
        if isinstance(pe, str) and pe.startswith("."):
            base = v if (v is not None and v[0] == "agg") else ("agg", None, None, ())
            fields = dict(base[3])
            nv = self._set_path(fields.get(_fname(pe)), projs[1:], val)
            if nv is None:
                fields.pop(_fname(pe), None)
            else:
                fields[_fname(pe)] = nv
            return ("agg", base[1], base[2], tuple(sorted(fields.items())))
        return None

    def write(self, env, place, val, depth=0):
        base = place[0]
        projs = list(place[1:])
        if not projs:
            if base in self.fixed:
                val = self.fixed[base]
            if val is None:
                env.pop(base, None)
            else:
                env[base] = val
            return
        if projs[0] == "*":
            v = env.get(base)
            if v is not None and v[0] == "ref" and depth < 8:
                self.write(env, [v[1]] + list(v[2]) + projs[1:], val, depth + 1)
            else:
                for l in self._addr_taken:           # a store through an unknown pointer
                    env.pop(l, None)
            return
        if any(pe == "*" or not isinstance(pe, str) or pe.startswith("[") for pe in projs):
            env.pop(base, None)
            return
        nv = self._set_path(env.get(base), projs, val)
        if nv is None:
            env.pop(base, None)
        else:
            env[base] = nv

    def operand(self, env, o):
        if not isinstance(o, dict):
            return None
        k = o.get("k")
        if k is not None:
            if "v" in k and isinstance(k["v"], int):
                return ("k", k["v"])
            pi = k.get("promoted")
            if isinstance(pi, int) and not isinstance(pi, bool):
                proms = self.f.rec.get("promoted") or []
                if pi < len(proms) and isinstance(proms[pi], dict):
                    pr = proms[pi]
                    if "variant" in pr:
                        return ("ref", -1, (("@const", pr.get("adt"), pr["variant"]),))
                    if "v" in pr:
                        return ("ref", -1, (("@const", None, pr["v"]),))
            return None
        pl = o.get("c") or o.get("m")
        if pl:
            return self.read(env, pl)
        return None

    def _deref_const(self, v):
        """promoted constants are references to a constant value"""
        if v is not None and v[0] == "ref" and v[1] == -1:
            _, adt, x = v[2][0]
            if adt is not None:
                return ("agg", adt, x, ())
            return ("k", x)
        return v

    def rvalue(self, env, rv):
        r = rv.get("r")
        if r in ("use", "cast"):
            v = self.operand(env, rv["o"][0])
            if r == "cast" and v is not None and v[0] != "k":
                v = self._deref_const(v)
                if v is not None and v[0] == "agg" and v[1] is not None and v[2] is not None and not v[3]:
                    d = self.discr_of(v[1], v[2])            # `Variant as u8`
                    return ("k", d) if d is not None else None
                return None
            return v
        if r in ("ref", "rawptr"):
            pl = rv["p"]
            # normalise &(*r).x to the referenced place
            if len(pl) > 1 and pl[1] == "*":
                v = env.get(pl[0])
                if v is not None and v[0] == "ref" and v[1] >= 0:
                    return ("ref", v[1], tuple(v[2]) + tuple(pl[2:]))
                if v is not None and v[0] == "ref" and v[1] == -1 and len(pl) == 2:
                    return v                      # a reborrow of a promoted constant
                return None
            return ("ref", pl[0], tuple(pl[1:]))
        if r == "discr":
            v = self._deref_const(self.read(env, rv["p"]))
            if v is not None and v[0] == "agg" and v[1] is not None and v[2] is not None:
                d = self.discr_of(v[1], v[2])
                if d is not None:
                    return ("k", d)
            return None
        if r == "agg":
            kind = rv.get("akind")
            ops = rv.get("o") or []
            if kind == "tuple":
                fs = [(str(i), self.operand(env, o)) for i, o in enumerate(ops)]
                return ("agg", None, None, tuple(sorted((n, v) for n, v in fs if v is not None)))
            if kind == "adt":
                names = rv.get("fields") or [str(i) for i in range(len(ops))]
                fs = [(n, self.operand(env, o)) for n, o in zip(names, ops)]
                return ("agg", rv.get("adt"), rv.get("variant"), tuple(sorted((n, v) for n, v in fs if v is not None)))
            return None
        if r == "un" and rv.get("op") == "Not":
            v = self.operand(env, rv["o"][0])
            if v is not None and v[0] == "k" and v[1] in (0, 1):
                return ("k", 1 - v[1])
            return None
        if r == "bin" and rv.get("op") in ("Eq", "Ne", "Lt", "Le", "Gt", "Ge"):
            a, b = [self.operand(env, o) for o in rv["o"]]
            if a is not None and b is not None and a[0] == "k" and b[0] == "k":
                x, y = a[1], b[1]
                return ("k", int({"Eq": x == y, "Ne": x != y, "Lt": x < y, "Le": x <= y, "Gt": x > y, "Ge": x >= y}[rv["op"]]))
            return None
        return None

    # ---- the walk ----------------------------------------------------------------------------------------------
    def _key(self, b, env, extra):
        live = self._live[b]
        return (b, frozenset((l, v) for l, v in env.items() if l in live or l in self._addr_taken), extra)

    def step(self, b, env):
        """apply block b to env (copied); returns (env after statements, [(successor, env on that edge)])"""
        f = self.f
        env = dict(env)
        blk = f.blocks[b]
        alias = {}
        infeasible = False
        for s in blk["stmts"]:
            rv = s["rv"]
            v = self.rvalue(env, rv)
            if v == ("infeasible",):
                infeasible = True
                v = None
            self.write(env, s["dst"], v)
            if len(s["dst"]) == 1:
                d = s["dst"][0]
                alias.pop(d, None)
                for k_ in [k_ for k_, a in alias.items() if a[1][0] == d]:
                    alias.pop(k_)
                if v is None:
                    if rv.get("r") == "use":
                        pl = rv["o"][0].get("c") or rv["o"][0].get("m") if isinstance(rv["o"][0], dict) else None
                        if pl:
                            alias[d] = ("val", pl)
                    elif rv.get("r") == "discr":
                        alias[d] = ("discr", rv["p"])
        if infeasible:
            return env, []
        t = blk["term"]
        k = t["t"]
        outs = []
        if k == "switch":
            sv = self.operand(env, t["o"])
            l = op_local(t["o"])
            vals = [v for v, _ in t["targets"]]
            if sv is not None and sv[0] == "k":
                nxt = [tg for v, tg in t["targets"] if str(v) == str(sv[1])]
                outs.append((nxt[0] if nxt else t["otherwise"], env))
            else:
                edges = [(v, tg) for v, tg in t["targets"]] + [(None, t["otherwise"])]
                al = alias.get(l)
                for v, tg in edges:
                    e2 = dict(env)
                    if v is not None:
                        e2[l] = ("k", v)
                    learned = v
                    if v is None and t.get("ty") == "bool" and vals == [0]:
                        learned = 1
                        e2[l] = ("k", 1)
                    if al is not None and learned is not None:
                        if al[0] == "val":
                            self.write(e2, al[1], ("k", learned))
                        else:
                            adt = self._sw.get(b, (None, None))[0]
                            vn = self.variant_of(adt, learned) if adt else None
                            if vn is not None:
                                cur = self.read(e2, al[1])
                                if cur is not None and cur[0] == "agg" and cur[2] == vn:
                                    pass
                                else:
                                    self.write(e2, al[1], ("agg", adt, vn, ()))
                    elif al is not None and al[0] == "discr" and v is None:
                        adt = self._sw.get(b, (None, None))[0]
                        vs = self.variants(adt) if adt else None
                        if vs:
                            rest = [x["name"] for x in vs if str(x["discr"]) not in {str(q) for q in vals}]
                            if len(rest) == 1:
                                self.write(e2, al[1], ("agg", adt, rest[0], ()))
                    outs.append((tg, e2))
        elif k == "call":
            self._call(env, t, outs)
        elif k == "goto":
            outs.append((t["to"], env))
        elif k in ("drop", "assert"):
            outs.append((t["to"], env))
        elif k in ("ret", "unreach", "resume"):
            pass
        else:
            for s in f.succ(b):
                outs.append((s, env))
        return env, outs

    def _call(self, env, t, outs):
        callee = (t["fn"].get("res") or t["fn"].get("def") or "?") if isinstance(t.get("fn"), dict) else "?"
        short = callee.rsplit("::", 1)[-1]
        args = t.get("args") or []
        res = None
        a0 = self._deref_const(self.operand(env, args[0])) if args else None
        if a0 is not None and a0[0] == "ref" and a0[1] >= 0 and short in PASS:
            a0 = self.read(env, [a0[1]] + list(a0[2]))
        if t.get("inlined"):
            res = "keep"                                   # the inlined body already computed the destination's scratch copy
        elif short in PASS and len(args) == 1:
            res = a0
        elif short == "branch" and a0 is not None and a0[0] == "agg" and a0[2] in ("Ok", "Some"):
            res = ("agg", "std::ops::ControlFlow", "Continue", tuple((n, v) for n, v in a0[3] if n == "0"))
        elif short == "branch" and a0 is not None and a0[0] == "agg" and a0[2] in ("Err", "None"):
            res = ("agg", "std::ops::ControlFlow", "Break", ())
        elif short == "from_residual" and t.get("dst") and len(t["dst"]) == 1:
            ty = self.f.locals[t["dst"][0]] if t["dst"][0] < len(self.f.locals) else ""
            if ty.startswith("std::result::Result"):
                res = ("agg", "std::result::Result", "Err", ())          # `?` hands on the failure
            elif ty.startswith("std::option::Option"):
                res = ("agg", "std::option::Option", "None", ())
        elif short in ("eq", "ne") and len(args) == 2:
            b0 = self._deref_const(self.operand(env, args[1]))
            x, y = a0, b0
            if x is not None and x[0] == "ref" and x[1] >= 0:
                x = self.read(env, [x[1]] + list(x[2]))
            if y is not None and y[0] == "ref" and y[1] >= 0:
                y = self.read(env, [y[1]] + list(y[2]))
            x, y = self._deref_const(x), self._deref_const(y)
            if x is not None and y is not None:
                if x[0] == "k" and y[0] == "k":
                    res = ("k", int((x[1] == y[1]) == (short == "eq")))
                elif x[0] == "agg" and y[0] == "agg" and x[2] is not None and y[2] is not None and not x[3] and not y[3] \
                        and self._fieldless(x[1], x[2]) and self._fieldless(y[1], y[2]):
                    res = ("k", int((x[2] == y[2]) == (short == "eq")))
        if res != "keep" and short not in PASS and short not in ("branch", "from_residual", "eq", "ne"):
            # a closure that captured a local by unique reference may be run by this call
            for l in self._addr_taken_mut:
                env.pop(l, None)
        if res != "keep":
            # whatever a &mut argument points to may change
            for o in args:
                v = self.operand(env, o)
                l = op_local(o)
                ty = self.f.locals[l] if l is not None and l < len(self.f.locals) else ""
                if v is not None and v[0] == "ref" and v[1] >= 0 and ty.startswith("&mut"):
                    env.pop(v[1], None)
                elif ty.startswith("&mut") and v is None:
                    pass
            if t.get("dst"):
                self.write(env, t["dst"], res)
        if t.get("to") is not None:
            outs.append((t["to"], env))

    def _fieldless(self, adt, variant):
        a = self.p.adts.get(adt)
        if a is None:
            return adt in core.STD_ENUMS and variant in ("None", "Less", "Equal", "Greater")
        for v in a["variants"]:
            if v["name"] == variant:
                return not v.get("fields")
        return False

    def explore(self, start, init=None, kill=(), goal=None, via=None, skip_cleanup=True, on_state=None):
        """walk all paths from `start` that the known constants do not rule out. Returns (visited blocks, path to a goal or
        None). on_state(block, env after the block's statements) is called once per distinct state."""
        f = self.f
        kill = set(kill)
        goal = set(goal) if goal is not None else None
        via = set(via) if via is not None else None
        env0 = dict(init or {})
        env0.update(self.fixed)
        st0 = self._key(start, env0, via is None or start in via)
        seen = {st0}
        work = [(start, env0, via is None or start in via, (start,))]
        visited = set()
        while work:
            b, env, passed, path = work.pop()
            if b in kill:
                continue
            visited.add(b)
            if goal is not None and b in goal and passed:
                return visited, list(path)
            env_after, outs = self.step(b, env)
            if on_state is not None:
                on_state(b, env_after)
            for s, e2 in outs:
                if s is None or (skip_cleanup and f.blocks[s]["cleanup"]):
                    continue
                p2 = passed or (via is not None and s in via)
                key = self._key(s, e2, p2)
                if key in seen:
                    continue
                if len(seen) > self.max_states:
                    raise TooManyStates("%s: more than %d states" % (f.id, self.max_states))
                seen.add(key)
                work.append((s, e2, p2, path + (s,) if goal is not None else path))
        return visited, None

    def find_path(self, start, goal, kill=(), via=None, init=None):
        return self.explore(start, init=init, kill=kill, goal=goal, via=via)[1]

    def feasible_blocks(self, start, kill=(), init=None):
        return self.explore(start, init=init, kill=kill)[0]
