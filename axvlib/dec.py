"""DEC — decision-table extraction for small loop-free, comparison-only predicates
(DESIGN 4.12). The function's CFG is unfolded into a decision tree whose inner nodes are
*atoms* (an Option test, an opaque boolean call, an order comparison between two symbolic
values) and whose leaves are boolean results. The tree is then evaluated for every
assignment of the atoms (order comparisons range over lt/eq/gt — a finite set of orderings)
and compared with a reference table. No solver, no execution: the values are never
interpreted, only compared.

If the function has a loop, writes through pointers, or branches on something that is not
one of the three atom kinds, the extractor raises NotAnalysable and the clause is not
claimed for that run (it never guesses)."""
import itertools
from .core import op_local, op_const


class NotAnalysable(Exception):
    pass


def _place_expr(env, place):
    base = place[0]
    e = env.get(base, ("local", base))
    variant = None
    for pe in place[1:]:
        if pe == "*":
            continue                      # references are transparent
        if isinstance(pe, str) and pe.startswith("@"):
            variant = pe[1:]
            continue
        if isinstance(pe, str) and pe.startswith("."):
            name = pe[1:].split(":")[0]
            if variant is not None:
                e = ("payload", e, variant, name)
                variant = None
            elif e[0] == "agg" and name.isdigit() and int(name) < len(e[3]):
                e = e[3][int(name)]              # component of a tuple or captured variable of a closure
            else:
                e = ("field", e, name)
            continue
        raise NotAnalysable("projection %r" % (pe,))
    return e


def _operand(env, o):
    if "c" in o:
        return _place_expr(env, o["c"])
    if "m" in o:
        return _place_expr(env, o["m"])
    k = o["k"]
    if "v" in k:
        return ("const", k["v"])
    if k.get("fn"):
        return ("fn", k["fn"])
    return ("constx", k.get("ty"), k.get("cdef"))


def _rvalue(env, rv):
    r = rv.get("r")
    if r == "use":
        return _operand(env, rv["o"][0])
    if r in ("ref", "rawptr"):
        return _place_expr(env, rv["p"])
    if r == "discr":
        return ("discr", _place_expr(env, rv["p"]))
    if r == "bin":
        a, b = [_operand(env, o) for o in rv["o"]]
        return ("bin", rv["op"], a, b)
    if r == "un":
        return ("un", rv["op"], _operand(env, rv["o"][0]))
    if r == "cast":
        return _operand(env, rv["o"][0])          # integer widening does not change order
    if r == "agg":
        return ("agg", rv.get("adt"), rv.get("variant"), tuple(_operand(env, o) for o in rv["o"]))
    raise NotAnalysable("rvalue %s" % r)


OPTION_TESTS = {"is_some_and": (0, None), "is_none_or": (1, None)}   # name -> (result on None, -)


def build_tree(f, transparent_calls=(), max_nodes=4000, prog=None, expand=()):
    """decision tree of function f: ("switch", expr, {value: subtree}, otherwise) | ("ret", expr).
    With `prog`, closures called directly or handed to Option::is_some_and / is_none_or are unfolded in place (the Option
    test becomes a discriminant node, the closure body is walked with the payload as its argument), and so is every
    crate function named in `expand`."""
    count = [0]

    def closure_of(call_term, fn):
        if prog is None:
            return None
        from . import core
        c = core.Call(fn, 0, call_term)
        tg = [t for t in prog.targets(c) if t in prog.raw_fns and prog.raw_fns[t].kind == "closure"]
        return prog.raw_fns[tg[0]] if len(tg) == 1 else None

    def enter(g, args, stack, cont, tupled=False):
        """walk g with its parameters bound to args; cont(result expr) builds the rest of the caller"""
        if g.id in stack or len(stack) > 4:
            raise NotAnalysable("recursive expansion of %s" % g.id)
        if tupled and len(args) == 2 and isinstance(args[1], tuple) and args[1][0] == "agg" and len(args[1][3]) == g.nargs - 1:
            args = (args[0],) + tuple(args[1][3])       # Fn::call(closure, (a, b)) -> closure body (closure, a, b)
        if len(args) != g.nargs:
            raise NotAnalysable("arity of %s" % g.id)
        genv = {i + 1: a for i, a in enumerate(args)}
        return walk(g, 0, genv, frozenset(), stack + (g.id,), cont)

    def walk(f, b, env, path, stack, cont):
        count[0] += 1
        if count[0] > max_nodes:
            raise NotAnalysable("too many paths")
        if b in path:
            raise NotAnalysable("loop through bb%d" % b)
        path = path | {b}
        blk = f.blocks[b]
        env = dict(env)
        for s in blk["stmts"]:
            if len(s["dst"]) != 1:
                # a store into a field of a local aggregate: keep it as an opaque update
                if s["dst"][0] == 0 or all(isinstance(pe, str) and pe.startswith(".") for pe in s["dst"][1:]):
                    env[s["dst"][0]] = ("upd", env.get(s["dst"][0], ("local", s["dst"][0])), tuple(s["dst"][1:]), _rvalue(env, s["rv"]))
                    continue
                raise NotAnalysable("store through %r" % (s["dst"],))
            if s["rv"].get("r") == "setdiscr":
                raise NotAnalysable("set discriminant")
            env[s["dst"][0]] = _rvalue(env, s["rv"])
        t = blk["term"]
        k = t["t"]
        if k == "goto":
            return walk(f, t["to"], env, path, stack, cont)
        if k == "ret":
            return cont(env.get(0, ("local", 0)))
        if k == "switch":
            d = _operand(env, t["o"])
            kids = {}
            for v, tgt in t["targets"]:
                kids[v] = walk(f, tgt, env, path, stack, cont)
            return ("switch", d, kids, walk(f, t["otherwise"], env, path, stack, cont))
        if k == "call":
            fn = t["fn"]
            callee = fn.get("res") or fn.get("def") or "?"
            args = tuple(_operand(env, o) for o in t["args"])
            if t.get("to") is None:
                return ("diverge", callee)
            short = callee.rsplit("::", 1)[-1]

            def after(r, env=env, t=t, f=f, path=path):
                e2 = dict(env)
                e2[t["dst"][0]] = r
                return walk(f, t["to"], e2, path, stack, cont)
            if len(t["dst"]) == 1 and prog is not None:
                g = prog.raw_fns.get(callee)
                if g is not None and (g.kind == "closure" or callee in expand) and g.id not in stack:
                    return enter(g, args, stack, after, tupled=(g.kind == "closure"))
                if callee.startswith("std::option::Option") and short in OPTION_TESTS and len(args) == 2:
                    clo = closure_of(t, f)
                    if clo is not None:
                        on_none = ("const", OPTION_TESTS[short][0])
                        some = enter(clo, (args[1], ("payload", args[0], "Some", "0")), stack, after)
                        return ("switch", ("discr", args[0]), {0: after(on_none), 1: some}, ("unreach",))
            if callee in transparent_calls or short in ("deref", "as_ref", "borrow", "clone", "into", "from"):
                env[t["dst"][0]] = args[0] if args else ("call", callee, args)
            else:
                env[t["dst"][0]] = ("call", callee, args)
            return walk(f, t["to"], env, path, stack, cont)
        if k in ("assert", "drop"):
            return walk(f, t["to"], env, path, stack, cont)
        if k == "unreach":
            return ("unreach",)
        raise NotAnalysable("terminator %s" % k)

    return walk(f, 0, {}, frozenset(), (f.id,), lambda e: ("ret", e))


# ---- atoms -------------------------------------------------------------------------------------

def show(e, names=None):
    if names:
        for pat, n in names:
            if pat == e:
                return n
    if not isinstance(e, tuple):
        return str(e)
    h = e[0]
    if h == "local":
        return "_%d" % e[1]
    if h == "field":
        return "%s.%s" % (show(e[1], names), e[2])
    if h == "payload":
        return "%s?%s.%s" % (show(e[1], names), e[2], e[3])
    if h == "const":
        return str(e[1])
    if h == "call":
        return "%s(%s)" % (e[1].rsplit("::", 1)[-1], ", ".join(show(a, names) for a in e[2]))
    if h == "bin":
        return "(%s %s %s)" % (show(e[2], names), e[1], show(e[3], names))
    if h == "un":
        return "%s(%s)" % (e[1], show(e[2], names))
    if h == "discr":
        return "discr(%s)" % show(e[1], names)
    return str(e)


class Atoms:
    """collects the atoms met while evaluating, in terms of canonical strings"""

    def __init__(self, names=None):
        self.names = names
        self.domains = {}     # atom key -> tuple of values

    def key_cmp(self, a, b):
        sa, sb = show(a, self.names), show(b, self.names)
        if sa <= sb:
            return ("cmp", sa, sb), False
        return ("cmp", sb, sa), True


def evaluate(tree, assign, atoms):
    """evaluate the decision tree under an assignment {atom key: value}; unknown atoms are
    registered in atoms.domains and NeedAtom is raised so that the caller can extend the space"""
    def val(e):
        # boolean / ordering value of expression e under the assignment
        h = e[0]
        if h == "const":
            return e[1]
        if h == "un" and e[1] == "Not":
            return 0 if val(e[2]) else 1
        if h == "bin" and e[1] in ("Lt", "Le", "Gt", "Ge", "Eq", "Ne"):
            k, flipped = atoms.key_cmp(e[2], e[3])
            if k not in atoms.domains:
                atoms.domains[k] = ("lt", "eq", "gt")
            if k not in assign:
                raise NeedAtom(k)
            rel = assign[k]
            if flipped:
                rel = {"lt": "gt", "gt": "lt", "eq": "eq"}[rel]
            return int({"Lt": rel == "lt", "Le": rel != "gt", "Gt": rel == "gt", "Ge": rel != "lt",
                        "Eq": rel == "eq", "Ne": rel != "eq"}[e[1]])
        if h == "bin" and e[1] in ("BitAnd", "BitOr", "BitXor"):
            a, b = val(e[2]), val(e[3])
            return {"BitAnd": a & b, "BitOr": a | b, "BitXor": a ^ b}[e[1]]
        if h == "discr":
            k = ("discr", show(e[1], atoms.names))
            if k not in atoms.domains:
                atoms.domains[k] = (0, 1)
            if k not in assign:
                raise NeedAtom(k)
            return assign[k]
        if h == "call":
            k = ("call", show(e, atoms.names))
            if k not in atoms.domains:
                atoms.domains[k] = (0, 1)
                if not hasattr(atoms, "callee"):
                    atoms.callee = {}
                atoms.callee[k] = e[1]
            if k not in assign:
                raise NeedAtom(k)
            return assign[k]
        if h in ("field", "payload", "local"):
            k = ("bool", show(e, atoms.names))
            if k not in atoms.domains:
                atoms.domains[k] = (0, 1)
            if k not in assign:
                raise NeedAtom(k)
            return assign[k]
        raise NotAnalysable("cannot interpret %s as a decision" % show(e, atoms.names))

    node = tree
    while True:
        if node[0] == "ret":
            return val(node[1])
        if node[0] in ("unreach", "diverge"):
            return node[0]
        _, d, kids, other = node
        v = val(d)
        node = kids.get(v, other)


class NeedAtom(Exception):
    pass


def table(tree, names=None):
    """full decision table: list of (assignment dict, result) over all atoms reachable"""
    atoms = Atoms(names)
    rows = []

    def expand(assign):
        try:
            r = evaluate(tree, assign, atoms)
        except NeedAtom as n:
            k = n.args[0]
            for v in atoms.domains[k]:
                a2 = dict(assign)
                a2[k] = v
                expand(a2)
            return
        rows.append((dict(assign), r))
    expand({})
    return rows, atoms


def compare(rows, atoms, ref):
    """ref(get) -> expected result, where get(atom key) returns the atom's value. Returns a list of
    mismatches (assignment, got, expected). A reference that needs an atom the extracted table
    did not consult on that path is evaluated for every value of that atom."""
    bad = []
    checked = 0

    def run(assign, got):
        nonlocal checked
        need = []

        def get(k):
            if k not in assign:
                need.append(k)
                raise KeyError(k)
            return assign[k]
        try:
            exp = ref(get)
        except KeyError:
            k = need[0]
            dom = atoms.domains.get(k) or (("lt", "eq", "gt") if k[0] == "cmp" else (0, 1))
            for v in dom:
                a2 = dict(assign)
                a2[k] = v
                run(a2, got)
            return
        checked += 1
        if exp is None:
            return           # reference does not constrain this (inconsistent) assignment
        if int(bool(exp)) != got:
            bad.append((dict(assign), got, int(bool(exp))))
    for a, r in rows:
        if r in ("unreach", "diverge"):
            continue
        run(a, r)
    return bad, checked
