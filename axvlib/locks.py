"""LOCK — lock-class order analysis (DESIGN 4.6).

Acquisition = a call whose destination local has a guard type. The lock class is the
protected type, so no table of lock names is needed. For every call site the set of guard
locals that are initialised and not yet dropped/moved is computed by a forward may-dataflow
over the MIR; MayAcquire(f) is the least fixpoint over the call graph (CHA + closures passed
as arguments). The result is the relation  held class -> acquired class  with a witness."""
import re, collections
from .core import op_local

GUARD_RX = re.compile(r"^(?:parking_lot::lock_api::(RwLockReadGuard|RwLockWriteGuard|MutexGuard)<'_, (?:parking_lot::Raw\w+, )?(.*)>"
                      r"|parking_lot::(ArcRwLockReadGuard|ArcRwLockWriteGuard)<(?:parking_lot::Raw\w+, )?(.*)>"
                      r"|multithreading::frames::(ReadLatch|WriteLatch)<(.*)>)$")

CLASS_NAMES = [
    (re.compile(r"^io::pager::Pager$"), "PAGER"),
    (re.compile(r"HashMap<u64, multithreading::coordinator::TransactionMetadata"), "TXTABLE"),
    (re.compile(r"HashMap<types::id::LogicalId, u64"), "TUPLE_COMMITS"),
    (re.compile(r"^multithreading::coordinator::TransactionHandle$"), "HANDLE"),
    (re.compile(r"^u64$"), "LOGGER_LSN"),
    (re.compile(r"^std::collections::VecDeque<"), "JOB_QUEUE"),
    (re.compile(r"^std::option::Option<Database>$|Option<axmosdb::Database>"), "SERVER_DB"),
    (re.compile(r"^schema::catalog::Catalog$"), "CATALOG"),
    (re.compile(r"MemBlock<storage::page::BtreePageHeader>|MemBlock<storage::page::OverflowPageHeader>|MemBlock<storage::page::PageZeroHeader>|^P$"), "PAGE_LATCH"),
]


def guard_class(ty):
    """(class name, mode) for a guard type string, else None"""
    m = GUARD_RX.match(ty.strip())
    if not m:
        return None
    g = [x for x in m.groups() if x is not None]
    kind, inner = g[0], g[1]
    mode = "w" if "Write" in kind or "Mutex" in kind else "r"
    for rx, name in CLASS_NAMES:
        if rx.search(inner):
            return name, mode
    return "OTHER<%s>" % inner[:60], mode


class LockFacts:
    def __init__(self, prog, scope=None):
        self.p = prog
        self.scope = scope
        self.direct = {}          # fn id -> [(call, class, mode)]
        self.held_at = {}         # fn id -> {call bb: {guard local: (class, mode)}}
        self._analyse()
        self._fix()

    def _analyse(self):
        for f in self.p.fns.values():
            acq = []
            gl = {}
            for c in f.calls():
                if len(c.dst) != 1:
                    continue
                gc = guard_class(f.locals[c.dst[0]])
                if gc:
                    acq.append((c, gc[0], gc[1]))
                    gl[c.dst[0]] = gc
            # guards received by move (parameter or assigned from another local) are also held
            for i, ty in enumerate(f.locals):
                if i not in gl:
                    gc = guard_class(ty)
                    if gc:
                        gl[i] = gc
            self.direct[f.id] = acq
            if not gl:
                self.held_at[f.id] = {}
                continue
            self.held_at[f.id] = self._dataflow(f, gl)

    def held(self, f):
        """held_at of a function object: for an inlined view the dataflow runs over the view's own blocks"""
        if not getattr(f, "inlined", None):
            return self.held_at.get(f.id, {})
        if not hasattr(self, "_views"):
            self._views = {}
        if f.id not in self._views:
            gl = {}
            for i, ty in enumerate(f.locals):
                gc = guard_class(ty)
                if gc:
                    gl[i] = gc
            self._views[f.id] = self._dataflow(f, gl) if gl else {}
        return self._views[f.id]

    def _dataflow(self, f, gl):
        n = len(f.blocks)
        IN = [None] * n
        IN[0] = frozenset(i for i in gl if 1 <= i <= f.nargs)   # guard parameters are held on entry
        work = [0]
        held_at = {}
        while work:
            b = work.pop()
            cur = set(IN[b])
            blk = f.blocks[b]
            for s in blk["stmts"]:
                rv = s["rv"]
                for o in (rv.get("o") or []) if isinstance(rv.get("o"), list) else []:
                    if "m" in o and len(o["m"]) == 1 and o["m"][0] in cur:
                        cur.discard(o["m"][0])
                        if len(s["dst"]) == 1 and s["dst"][0] in gl:
                            cur.add(s["dst"][0])
            t = blk["term"]
            outs = []
            if t["t"] == "call":
                held_at[b] = {g: gl[g] for g in cur}
                after = set(cur)
                for o in t["args"]:
                    if "m" in o and len(o["m"]) == 1 and o["m"][0] in after:
                        after.discard(o["m"][0])        # moved into the callee (e.g. drop(guard))
                if len(t["dst"]) == 1 and t["dst"][0] in gl:
                    after.add(t["dst"][0])
                if t.get("to") is not None:
                    outs.append((t["to"], after))
                if t.get("unwind") is not None:
                    outs.append((t["unwind"], set(cur)))
            elif t["t"] == "drop":
                after = set(cur)
                if len(t["p"]) == 1:
                    after.discard(t["p"][0])
                outs.append((t["to"], after))
                if t.get("unwind") is not None:
                    outs.append((t["unwind"], after))
            else:
                for s in f.succ(b, unwind=True):
                    outs.append((s, set(cur)))
            for s, st in outs:
                new = frozenset(st) if IN[s] is None else (IN[s] | frozenset(st))
                if IN[s] is None or new != IN[s]:
                    IN[s] = new
                    work.append(s)
        return held_at

    def _fix(self):
        """MayAcquire(f): classes (with mode) that f or anything it calls may acquire"""
        p = self.p
        A = {fid: {(cl, m) for _, cl, m in acq} for fid, acq in self.direct.items()}
        edges = p.edges()
        changed = True
        while changed:
            changed = False
            for fid in A:
                cur = A[fid]
                add = set()
                for t in edges.get(fid, ()):
                    if t in A:
                        add |= A[t]
                if not add <= cur:
                    A[fid] = cur | add
                    changed = True
        self.may = A

    def order_edges(self, scope=None):
        """[(held class, held mode, acquired class, acquired mode, fn, call, via)]"""
        out = []
        p = self.p
        for f in p.fns.values():
            if scope is not None and f.id not in scope:
                continue
            ha = self.held_at.get(f.id, {})
            for c in f.calls():
                H = ha.get(c.bb)
                if not H:
                    continue
                # what this call acquires: itself (guard-typed destination) or through its targets
                acq = set()
                if len(c.dst) == 1:
                    gc = guard_class(f.locals[c.dst[0]])
                    if gc:
                        acq.add((gc[0], gc[1], "direct"))
                for t in p.targets(c):
                    for cl, m in self.may.get(t, ()):
                        acq.add((cl, m, t))
                for g, (hc, hm) in H.items():
                    for ac, am, via in acq:
                        out.append((hc, hm, ac, am, f, c, via))
        return out
